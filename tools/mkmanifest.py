#!/usr/bin/env python3
"""Regenerates /verif/MANIFEST.json from the property modules that exist (tools, not a check)."""
import importlib, json, os, sys
sys.path.insert(0, os.path.dirname(os.path.dirname(os.path.abspath(__file__))))
os.environ.setdefault("VERIF_REPO", "/repo")
from vf import env
env.bootstrap()

NOTES = {
    "C01": "trusted: view() (public-attribute reader) and the spec generator; samples compared bit for bit at on-disk width",
    "C02": "trusted: stream.tell() and the in-place wrappers; nBytes read immediately before _write / after _build",
    "C03": "trusted: refcodec.parse_container (independent struct-based parser) and the sequential model",
    "C04": "trusted: reference model of the history; payload expectation = encoding captured at call time",
    "C05": "trusted: refcodec segment-table parser, runs(mask); heap poisoning reaches numpy's block cache and malloc",
    "C06": "trusted: refcodec (my reading of the layout, anchored on the BTS capture and its golden digests)",
    "C07": "trusted: sha256 of the file read through a separate descriptor; injected faults are deterministic per encode",
    "C08": "trusted: the permission state machine in the harness, sys.addaudithook, /proc/self/fd",
    "C09": "trusted: refcodec.parse_container + os.stat; initial files compact by construction",
    "C10": "trusted: separate-descriptor read, second read-only Tdf; dates compared to the second",
    "C11": "trusted: reference model predicts every accessor's answer",
    "C12": "trusted: refcodec's labelling of don't-care bytes (every byte of every encoding is labelled)",
    "C13": "trusted: Python's cp1252 codec as the definition of 'encodable'",
    "C14": "trusted: relation known by construction (identical / round trip / exactly one mutation)",
    "C15": "trusted: shadow list of (channel, item) pairs; channel map parsed from the encoded bytes",
    "C16": "trusted: identity snapshots of block.tracks / iteration around every call",
    "C17": "trusted: sha256 of pre-existing targets, audit hook, independent parse of new files",
    "C18": "trusted: relational oracle over len / iter / [] / in",
    "C19": "trusted: expected outcome by construction for clear cases; ambiguous cases judged only on size agreement",
    "C20": "trusted: encodings and identity lists of all other live instances snapshotted around every mutation",
}
ids = [f"C{i:02d}" for i in range(1, 21)]
checks, na = [], []
for pid in ids:
    try:
        m = importlib.import_module(f"vf.props.{pid.lower()}")
    except ModuleNotFoundError:
        na.append({"property_id": pid, "reason": "check not built yet in this session (planned: DESIGN.md section 2)"})
        continue
    checks.append({
        "property_id": pid,
        "quick_cmd": f"./check {pid} --tier quick",
        "thorough_cmd": f"./check {pid} --tier thorough",
        "evidence_file": f"evidence/{pid}.json",
        "replay_cmd_template": "./check replay {path}",
        "engine": "vf",
        "level_claimed": {"category": m.LEVEL,
                          "text": ("held on the executions observed: an oracle watches the real code under generated, "
                                   "enumerated and fault-injected workloads; " + m.__doc__.strip()),
                          "design_ref": f"DESIGN.md section 2, {pid}"},
        "level_note": NOTES[pid],
        "technique": m.TECHNIQUE,
    })
man = {
    "version": 1,
    "setup_cmd": "./check setup",
    "hooks": {"guard": "BASICTDF_VERIF",
              "enable": "no hook lives in the repository: monitors are attached from /verif at import time "
                        "(class attributes wrapped in place, audit hook, sys.monitoring); ./check exports BASICTDF_VERIF=1",
              "baseline_off_cmd": "cd /repo && /venv/bin/python -m pytest -ra -q -p no:cacheprovider --timeout=900 --continue-on-collection-errors --junitxml=/verif/out/baseline_off.junit.xml",
              "source_commits": [], "add_only": True},
    "engines": [{"name": "vf", "path": "vf/", "serves_properties": [c["property_id"] for c in checks],
                 "kind_free_text": "runtime monitors + reference codec + sequential models, /venv/bin/python against /repo/src"}],
    "checks": checks,
    "notes": "Runtime monitoring only. exit 0 held / exit 1 VIOLATION / exit 2 INCONCLUSIVE. See DESIGN.md.",
    "not_applicable": na,
}
json.dump(man, open(os.path.join(os.path.dirname(__file__), "..", "MANIFEST.json"), "w"), indent=1)
print("checks:", [c["property_id"] for c in checks], "n/a:", [n["property_id"] for n in na])
