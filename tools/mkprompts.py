#!/usr/bin/env python3
"""Write the task text for one round of independent property-breaking sub-agents (one per property) and create their
scratch worktrees.  usage: mkprompts.py <round-tag> C01 C02 ...   ->  /tmp/agent<tag>_prompt_<pid>.txt, /tmp/mut<tag>_<pid>
The agent sees only the property text, its worktree and the one-line summaries of ideas already used (nothing from /verif)."""
import json, subprocess, sys
tag, pids = sys.argv[1], sys.argv[2:]
props = {json.loads(l)["id"]: json.loads(l) for l in open("/verif/properties.jsonl")}
S = json.load(open("/verif/tools/seeded_summaries.json"))
for pid in pids:
    d = props[pid]
    wt = f"/tmp/mut{tag}_{pid}"
    subprocess.run(["git", "-C", "/repo", "worktree", "add", "-q", "--detach", wt, "HEAD"], check=True)
    seen = "\n".join(f"  - {S[k][0]}" for k in sorted(S) if k.startswith(pid))
    txt = f"""You are helping to evaluate a verification harness for the Python library `basictdf` (a pure-Python reader/writer for the BTS Bioengineering TDF motion-capture file format). Your job is to play the role of a developer who introduces a realistic, subtle BUG that RANDOMISED TESTING DOES NOT FIND EASILY.

You have your own scratch git worktree of the library at {wt} (source in {wt}/src/basictdf, tests in {wt}/tests). Work ONLY inside {wt}. Do NOT read or list /verif, /root/.vp or /repo - they are out of bounds (what you write must be independent of them). There is no network.

IMPORTANT environment facts:
- Use the interpreter /venv/bin/python. The package is installed in editable mode pointing at another checkout, so you MUST prefix every python/pytest command with PYTHONPATH={wt}/src so that YOUR copy is imported. Check with: PYTHONPATH={wt}/src /venv/bin/python -c "import basictdf; print(basictdf.__file__)"
- The existing test suite is run with: cd {wt} && PYTHONPATH={wt}/src /venv/bin/python -m pytest -q -p no:cacheprovider --continue-on-collection-errors   (expected: 39 passed, 1 skipped, 1 collection error for tests/test_Tdf.py - that error is pre-existing and expected).
- Additionally the container tests in tests/test_Tdf.py can be run with unittest: cd {wt} && PYTHONPATH={wt}/src /venv/bin/python -m unittest tests.test_Tdf  (12 tests, all pass). Your mutated library should keep these passing too.

THE PROPERTY the library is supposed to satisfy:

  Title: {d['title']}
  Statement: {d['statement']}
  Quantified over: {d['quantifier']['text']}

YOUR TASK has three steps.
STEP 1 - write your own randomised smoke test `fuzz.py` for this property (a single standalone file, ~100-200 lines, only basictdf/numpy/stdlib, seeded `random`, any files in a tempfile.TemporaryDirectory): it should generate a few thousand random *valid* small inputs / operation histories relevant to the property (vary counts, sizes, gap patterns, labels, dtypes, table lengths, call orders, reopen points ... whatever the property ranges over), check the property on each, and exit 0 if everything held, 1 otherwise. It must pass on the clean code and run in under ~60 s. Make it reasonably thorough - imagine it is what a careful colleague would write to guard this property.
STEP 2 - produce TWO different, independent source changes ("mutation A" and "mutation B") under {wt}/src/basictdf, each of which
  1. BREAKS the property above for some valid input / history,
  2. still passes the existing test suite (39 passed with pytest, the 12 unittest cases) AND ALSO PASSES YOUR OWN fuzz.py (run it with 3 different seeds) - i.e. the bug needs something specific to manifest: a particular multi-step sequence of operations, a crash or fault at a particular point, an unusual (but valid) input, a boundary, an API path or argument form rarely used, or two cooperating sites that each look fine alone,
  3. is REALISTIC - a slip, refactor, optimisation or well-meant generalisation a maintainer could plausibly commit, not sabotage guarded by magic constants,
  4. is still a genuine violation for inputs that are VALID according to the property's own quantifier (do not rely on inputs the property excludes).
Ideas that have ALREADY been used for this property and must NOT be repeated (find something different in mechanism):
{seen}
STEP 3 - for each mutation write a small deterministic demonstration `demoA.py` / `demoB.py` that exits 0 on the clean code and non-zero with the mutation.

DELIVERABLES in {wt}/ (top level): fuzz.py, mutationA.diff, mutationB.diff (unified `git diff` relative to HEAD, each applying cleanly on its own to a clean checkout), demoA.py, demoB.py, NOTES.md (per mutation: what changed, why plausible, exactly what is needed to trigger it and why fuzz.py does not hit it; the commands you ran and their results).
Before finishing: leave the worktree's tracked files CLEAN (`git checkout -- .`), verify `git -C {wt} status --short` shows only your deliverables and `git -C {wt} apply --check mutationA.diff` / `mutationB.diff` succeed.
Practical note: keep every single message and file short (several small edits rather than one huge message; never print whole source files) - very long single responses get cut off. You have about 25 minutes: if the second mutation is not done by then, deliver the first one alone.

Read the relevant source first. Your final message should list the two mutations in two lines each.
"""
    open(f"/tmp/agent{tag}_prompt_{pid}.txt", "w").write(txt)
print("ok", len(pids))
