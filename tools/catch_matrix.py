#!/usr/bin/env python3
"""Builds the 'which check catches which change' tables (markdown) from seeded/*/meta.json and selfcheck/results.json."""
import glob, json, os
here = os.path.dirname(os.path.abspath(__file__))
rows = []
for mp in sorted(glob.glob(os.path.join(here, "..", "seeded", "*", "meta.json"))):
    m = json.load(open(mp))
    tc = m.get("target_check") or {}
    others = [k for k, v in (m.get("all_checks_quick") or {}).items() if v["rc"] == 1 and k != m["property"]]
    rows.append((m["id"], m["property"], m.get("summary", "")[:110], "yes" if m.get("caught_by_target_quick") else "NO",
                 ", ".join(tc.get("keys", [])[:2]), ", ".join(others)))
print("| id | property | change (what it needs to manifest) | caught by its check (quick) | keys | also caught by |")
print("|---|---|---|---|---|---|")
for r in rows:
    print("| " + " | ".join(r) + " |")
rp = os.path.join(here, "..", "selfcheck", "results.json")
if os.path.exists(rp):
    print()
    print("| own change | target | 39 tests | caught | keys |")
    print("|---|---|---|---|---|")
    for r in json.load(open(rp)):
        t = r.get("props", {}).get(r["target"], {})
        print(f"| {r['name']} | {r['target']} | {r.get('pytest','')[:24]} | {'yes' if t.get('rc') == 1 else 'no'} | {', '.join(t.get('keys', [])[:2])} | ")
