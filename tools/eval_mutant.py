#!/usr/bin/env python3
"""Self-validation helper (not a registered check): applies a patch to a scratch copy of /repo outside /repo and
/verif, confirms it still passes the repository's tests, points the checks at it (VERIF_REPO) and reports which
fire.  Evidence and replay files of these runs are redirected to the scratch directory, so /verif/evidence keeps
describing /repo itself.  usage: eval_mutant.py <patch.diff> [--props C01,C05] [--tier quick] [--demo demo.py] [--seed N]"""
import argparse, json, os, shutil, subprocess, sys, tempfile, time

ap = argparse.ArgumentParser()
ap.add_argument("patch")
ap.add_argument("--props", default="")
ap.add_argument("--tier", default="quick")
ap.add_argument("--demo", default=None)
ap.add_argument("--seed", default="0")
ap.add_argument("--keep", action="store_true")
a = ap.parse_args()
props = a.props.split(",") if a.props else [f"C{i:02d}" for i in range(1, 21)]
scratch = tempfile.mkdtemp(prefix="vfmut_", dir="/dev/shm")
repo = os.path.join(scratch, "repo")
res = {"patch": a.patch, "props": {}, "tier": a.tier}
try:
    shutil.copytree("/repo", repo, ignore=shutil.ignore_patterns(".git", "__pycache__", "docs", "*.pyc"))
    p = subprocess.run(["patch", "-p1", "-s", "-d", repo, "-i", os.path.abspath(a.patch)], capture_output=True, text=True)
    if p.returncode != 0:
        print("PATCH DOES NOT APPLY:", p.stdout, p.stderr)
        sys.exit(3)
    env = dict(os.environ, PYTHONPATH=os.path.join(repo, "src"), PYTHONDONTWRITEBYTECODE="1")
    t = subprocess.run(["/venv/bin/python", "-m", "pytest", "-q", "-p", "no:cacheprovider", "--continue-on-collection-errors"],
                       cwd=repo, env=env, capture_output=True, text=True)
    res["pytest"] = t.stdout.strip().splitlines()[-1] if t.stdout.strip() else t.stderr[-200:]
    u = subprocess.run(["/venv/bin/python", "-m", "unittest", "tests.test_Tdf"], cwd=repo, env=env, capture_output=True, text=True)
    res["unittest_Tdf"] = (u.stderr.strip().splitlines() or ["?"])[-1]
    for f in os.listdir(os.path.join(repo, "tests")):
        if f.endswith(".tdf"):
            os.unlink(os.path.join(repo, "tests", f))
    if a.demo:
        d = subprocess.run(["/venv/bin/python", os.path.abspath(a.demo)], env=env, capture_output=True, text=True, cwd=scratch)
        res["demo_with_mutation_rc"] = d.returncode
        d0 = subprocess.run(["/venv/bin/python", os.path.abspath(a.demo)], env=dict(env, PYTHONPATH="/repo/src"), capture_output=True, text=True, cwd=scratch)
        res["demo_clean_rc"] = d0.returncode
    cenv = dict(os.environ, VERIF_REPO=repo, VERIF_EVIDENCE_DIR=os.path.join(scratch, "evidence"),
                VERIF_REPLAY_DIR=os.path.join(scratch, "replay"), VERIF_SEED=a.seed)
    for pid in props:
        t0 = time.time()
        c = subprocess.run(["/verif/check", pid, "--tier", a.tier], env=cenv, capture_output=True, text=True)
        keys = sorted({ln.split("::")[0].strip()[4:] for ln in c.stdout.splitlines() if ln.strip().startswith("key=")})
        inc = [ln for ln in c.stdout.splitlines() if ln.startswith("INCONCLUSIVE")]
        res["props"][pid] = {"rc": c.returncode, "keys": keys[:8], "wall": round(time.time() - t0, 1),
                             **({"inconclusive": inc[0][:300]} if inc else {})}
        print(pid, "rc=%d" % c.returncode, keys[:4], inc[:1], flush=True)
    caught = [p for p, r in res["props"].items() if r["rc"] == 1]
    res["caught_by"] = caught
    print(json.dumps({k: v for k, v in res.items() if k != "props"}))
    out = os.environ.get("EVAL_OUT")
    if out:
        json.dump(res, open(out, "w"), indent=1)
finally:
    if not a.keep:
        shutil.rmtree(scratch, ignore_errors=True)
