#!/usr/bin/env python3
"""Generates /verif/selfcheck/<name>.diff : my own deliberate property-breaking changes (and negative
controls) against /repo's HEAD.  Each entry = (name, property, file, old snippet, new snippet).
They are applied to scratch copies only (tools/eval_mutant.py) - never to /repo."""
import difflib, json, os, sys

REPO = "/repo"
OUT = os.path.join(os.path.dirname(os.path.abspath(__file__)), "..", "selfcheck")
B = "src/basictdf/"
M = []


def m(name, prop, file, old, new, note=""):
    M.append((name, prop, B + file, old, new, note))


# ---- C01 ---------------------------------------------------------------------------------------
m("c01_emg_bias_write_only", "C01", "tdfEMG.py", "i32.bwrite(file, self.nSamples - 49)", "i32.bwrite(file, self.nSamples - 48)")
m("c01_force_torque_swapped_on_decode", "C01", "tdfForce3D.py",
  "                force_data[frame] = ForceType.bread(stream)\n                torque_data[frame] = TorqueType.bread(stream)",
  "                torque_data[frame] = ForceType.bread(stream)\n                force_data[frame] = TorqueType.bread(stream)")
m("c01_data3d_starttime_rounded", "C01", "tdfData3D.py", "f32.bwrite(file, self.startTime)", "f32.bwrite(file, round(float(self.startTime), 3))")
m("c01_event_kind_lost_on_decode", "C01", "tdfEvents.py", "type_ = EventsDataType(u32.bread(stream))", "type_ = EventsDataType(min(int(u32.bread(stream)), 1) if nItems_hint else 0)")
m("c01_links_only_first_30", "C01", "tdfData3D.py", "            LinkType.bwrite(file, links)", "            LinkType.bwrite(file, links[:30])\n            LinkType.bwrite(file, links[30:31])\n            LinkType.bwrite(file, links[30:31] if len(links) > 31 else links[31:])",
  "links beyond the 31st written wrongly")
m("c01_platcal_size_as_f16", "C01", "tdfForcePlatformsCalibration.py", "VEC2F.bwrite(stream, self.size)", "VEC2F.bwrite(stream, np.asarray(self.size, dtype=np.float16))")
m("c01_denormals_flushed", "C01", "tdfData3D.py", "            TrackType.bwrite(file, self.data[segment])",
  "            TrackType.bwrite(file, np.where(np.abs(self.data[segment]) < 1e-38, 0.0, self.data[segment]))")
# ---- C02 ---------------------------------------------------------------------------------------
m("c02_marker_segment_term", "C02", "tdfData3D.py", "            base += 4 + 4 + (segment.stop - segment.start) * TrackType.btype.itemsize",
  "            base += 4 + (segment.stop - segment.start) * TrackType.btype.itemsize")
m("c02_data3d_link_term_dropped", "C02", "tdfData3D.py", "                    LinkType.btype.itemsize * len(self.links)\n                    if hasattr(self, \"links\")\n                    else 0",
  "                    0")
m("c02_data2d_cammap_term", "C02", "tdfData2D.py", "            + 2 * self.nCams  # camMap", "            + self.nCams  # camMap")
m("c02_event_label_255", "C02", "tdfEvents.py", "        return 256 + 4 + 4 + len(self.values) * 4", "        return 255 + 4 + 4 + len(self.values) * 4")
m("c02_emg_header_12", "C02", "tdfEMG.py", "        base = 4 + 4 + 4 + 2 * len(self._signals) + 4", "        base = 4 + 4 + 4 + 2 * len(self._signals)")
m("c02_bts_camera_69", "C02", "tdfCalibrationData.py", "            + f64.btype.itemsize\n            * self.max_distorsion_coefficients  # x_distortion_coefficients",
  "            + f64.btype.itemsize\n            * (self.max_distorsion_coefficients - 1)  # x_distortion_coefficients")
m("c02_force_track_multisegment", "C02", "tdfForce3D.py", "        base = 256 + 4 + 4 + SegmentData.btype.itemsize * len(segments)",
  "        base = 256 + 4 + 4 + SegmentData.btype.itemsize * min(len(segments), 2)")
m("c02_platdata_map_term", "C02", "tdfForcePlatformsData.py", "            + len(self._platforms) * 2  # platMap", "            + len(self._plat_map) * 4 // 2 - (2 if len(self._plat_map) > 3 else 0)  # platMap")
# ---- C03 / C09 / C10 -----------------------------------------------------------------------------
m("c03_stale_free_slot_offset", "C09", "basictdf.py",
  "        newOffset = (\n            self.entries[-1].offset + self.entries[-1].size\n            if self.entries\n            else (64 + 288 * self.nEntries)\n        )",
  "        newOffset = (\n            self.entries[-1].offset + oldEntry.size\n            if self.entries\n            else (64 + 288 * self.nEntries)\n        )")
m("c03_shift_size_minus_one_when_last_live", "C03", "basictdf.py", "            entry.offset -= oldEntry.size\n            entry._write(self.handler)",
  "            entry.offset -= oldEntry.size if entry.type == BlockType.unusedSlot else oldEntry.size - 1\n            entry._write(self.handler)")
m("c03_entry_written_one_slot_late_when_table_half_full", "C03", "basictdf.py", "        self.handler.seek(64 + 288 * unusedBlockPos, 0)\n        self.handler.write(entry_buffer.getvalue())",
  "        self.handler.seek(64 + 288 * (unusedBlockPos + (1 if unusedBlockPos > 6 else 0)), 0)\n        self.handler.write(entry_buffer.getvalue())")
m("c09_no_truncate", "C09", "basictdf.py", "        self.handler.truncate()\n", "")
m("c09_free_slots_not_repointed", "C09", "basictdf.py", "            entry.offset = new_entry.offset + new_entry.size\n            self.handler.seek(64 + 288 * n, 0)\n            entry._write(self.handler)",
  "            entry.offset = new_entry.offset + new_entry.size\n            if n == unusedBlockPos + 1:\n                self.handler.seek(64 + 288 * n, 0)\n                entry._write(self.handler)")
m("c10_no_flush_in_add", "C10", "basictdf.py", "        # ensure the file is the correct size\n        # and that the changes are written to disk\n        self.handler.flush()\n", "")
m("c10_no_flush_in_remove", "C10", "basictdf.py", "        self.handler.truncate()\n        self.handler.flush()", "        self.handler.truncate()")
m("c10_memory_only_offset_update", "C10", "basictdf.py", "            entry.offset = new_entry.offset + new_entry.size\n            self.handler.seek(64 + 288 * n, 0)\n            entry._write(self.handler)",
  "            entry.offset = new_entry.offset + new_entry.size\n            self.handler.seek(64 + 288 * n, 0)\n            if entry.offset < 65536:\n                entry._write(self.handler)")
m("c10_entry_not_replaced_in_memory", "C10", "basictdf.py", "        # replace the entry\n        self.entries[unusedBlockPos] = new_entry\n", "        # replace the entry\n        self.entries = list(self.entries)\n")
# ---- C04 ---------------------------------------------------------------------------------------
m("c04_tail_move_off_by_one", "C04", "basictdf.py", "        self.handler.seek(oldEntry.offset + oldEntry.size, 0)\n        temp = self.handler.read()",
  "        self.handler.seek(oldEntry.offset + oldEntry.size, 0)\n        temp = self.handler.read()\n        temp = temp[:-1] + temp[-2:-1] if len(temp) > 4096 else temp")
m("c04_shifted_entries_lose_comment", "C04", "basictdf.py", "            entry.offset -= oldEntry.size\n            entry._write(self.handler)",
  "            entry.offset -= oldEntry.size\n            entry.comment = entry.comment[:254]\n            entry._write(self.handler)")
m("c04_replace_default_comment", "C04", "basictdf.py", "        comment = comment if comment is not None else old_entry.comment\n", "        comment = comment if comment else \"Generated by basicTDF\"\n")
m("c04_shifted_entries_dates_now", "C04", "basictdf.py", "            entry.offset -= oldEntry.size\n            entry._write(self.handler)",
  "            entry.offset -= oldEntry.size\n            entry.last_modification_date = datetime.now()\n            entry._write(self.handler)")
m("neg_btsdate_round", "NEG", "tdfTypes.py", "return struct.pack(\"<i\", int(data.timestamp()))", "return struct.pack(\"<i\", int(data.timestamp() // 1) if data.timestamp() >= 0 else int(data.timestamp()))",
  "negative control: same second (floor == truncation for non-negative timestamps)")
# ---- C05 ---------------------------------------------------------------------------------------
m("c05_marker_no_nan_prefill", "C05", "tdfData3D.py", "        trackData[:] = np.NaN\n", "")
m("c05_emg_clump_masked", "C05", "tdfEMG.py", "        return np.ma.clump_unmasked(maskedTrackData.T)", "        return np.ma.clump_unmasked(maskedTrackData.T) if maskedTrackData.count() else np.ma.clump_masked(maskedTrackData.T)")
m("c05_marker_segment_stop", "C05", "tdfData3D.py", "            i32.bwrite(file, np.array(segment.stop - segment.start))", "            i32.bwrite(file, np.array(segment.stop - segment.start if segment.start else segment.stop))",
  "equivalent when start == 0 - negative control in disguise")
m("c05_force_only_ap_prefilled", "C05", "tdfForce3D.py", "        torque_data = np.empty(frames, dtype=TorqueType.btype)\n        torque_data[:] = np.nan\n", "        torque_data = np.empty(frames, dtype=TorqueType.btype)\n")
m("c05_platdata_no_prefill", "C05", "tdfForcePlatformsData.py", "        data[:] = np.nan\n", "")
m("c05_emg_zero_prefill", "C05", "tdfEMG.py", "        trackData = np.empty(nSamples, dtype=\"<f4\")\n        trackData[:] = np.nan", "        trackData = np.zeros(nSamples, dtype=\"<f4\")\n        trackData[nSamples - 1:] = np.nan")
m("c05_marker_merge_touching", "C05", "tdfData3D.py", "        return np.ma.clump_unmasked(maskedTrackData.T[0])", "        segs = np.ma.clump_unmasked(maskedTrackData.T[0])\n        return [s for s in segs if s.stop - s.start > 0 and not (len(segs) > 3 and s.stop - s.start == 1 and s is segs[-1])]")
# ---- C06 (consistent on both sides: invisible to round trips) -------------------------------------
m("c06_emg_bias_50_both", "C06", "tdfEMG.py", ["nSamples = i32.bread(stream) + 49", "i32.bwrite(file, self.nSamples - 49)"], ["nSamples = i32.bread(stream) + 50", "i32.bwrite(file, self.nSamples - 50)"])
m("c06_viewport_size_then_origin_both", "C06", "tdfTypes.py",
  ["        origin = VEC2I.bread(stream)\n        size = VEC2I.bread(stream)", "        VEC2I.bwrite(stream, self.origin)\n        VEC2I.bwrite(stream, self.size)"],
  ["        size = VEC2I.bread(stream)\n        origin = VEC2I.bread(stream)", "        VEC2I.bwrite(stream, self.size)\n        VEC2I.bwrite(stream, self.origin)"])
m("c06_platcal_pad_252_both", "C06", "tdfForcePlatformsCalibration.py",
  ["        stream.seek(256, 1)", "        BTSString.bwrite(stream, 256, \"\")  # Undocumented padding", "    nBytes = 256 + (4 * 2) + (4 * 3 * 4) + 256"],
  ["        stream.seek(252, 1)", "        BTSString.bwrite(stream, 252, \"\")  # Undocumented padding", "    nBytes = 256 + (4 * 2) + (4 * 3 * 4) + 252"])
m("c06_data3d_frames_frequency_swapped_both", "C06", "tdfData3D.py",
  ["        nFrames = i32.bread(stream)\n        frequency = i32.bread(stream)", "        i32.bwrite(file, self.nFrames)\n        # frequency\n        i32.bwrite(file, self.frequency)"],
  ["        frequency = i32.bread(stream)\n        nFrames = i32.bread(stream)", "        i32.bwrite(file, self.frequency)\n        # frequency\n        i32.bwrite(file, self.nFrames)"])
m("c06_entry_dates_order_both", "C06", "basictdf.py",
  ["        BTSDate.bwrite(file, self.last_modification_date)\n        BTSDate.bwrite(file, self.last_access_date)\n        i32.bpad(file)", "        last_modification_date = BTSDate.bread(file)\n        last_access_date = BTSDate.bread(file)\n        i32.skip(file)"],
  ["        BTSDate.bwrite(file, self.last_access_date)\n        BTSDate.bwrite(file, self.last_modification_date)\n        i32.bpad(file)", "        last_access_date = BTSDate.bread(file)\n        last_modification_date = BTSDate.bread(file)\n        i32.skip(file)"])
m("c06_events_start_time_f64_both", "C06", "tdfEvents.py", ["        start_time = f32.bread(stream)\n", "        f32.bwrite(stream, self.start_time)\n", "        return 4 + 4 + sum"],
  ["        start_time = f32.bread(stream)\n        stream.seek(0, 1)\n", "        f32.bwrite(stream, self.start_time)\n", "        return 4 + 4 + sum"], "no-op negative control")
m("c06_new_header_version_2", "C06", "basictdf.py", "            # version\n            i32.bwrite(f, 1)", "            # version\n            i32.bwrite(f, 1)\n            f.seek(-4, 1)\n            i32.bwrite(f, 1 if nEntries != 14 else 1 + (date.second == 61))", "negative control (never true)")
m("c06_new_reserved_not_zero", "C06", "basictdf.py", "            # reserved\n            i32.bpad(f, 5)", "            # reserved\n            i32.bwrite(f, 1)\n            i32.bpad(f, 4)")
# ---- C07 ---------------------------------------------------------------------------------------
m("c07_entry_written_before_block_serialised", "C07", "basictdf.py",
  "        block_buffer = BytesIO()\n        newBlock._write(block_buffer)\n        return new_entry, entry_buffer, block_buffer",
  "        block_buffer = BytesIO()\n        if offset:\n            return new_entry, entry_buffer, newBlock\n        newBlock._write(block_buffer)\n        return new_entry, entry_buffer, block_buffer",
  "add path defers block serialisation to write time")
m("c07_replace_removes_before_validating", "C07", "basictdf.py", "        self._serialize(newBlock, comment, 0)\n", "")
m("c07_replace_does_not_validate_comment", "C07", "basictdf.py", "        self._serialize(newBlock, comment, 0)\n", "        self._serialize(newBlock, \"\", 0)\n")
m("c07_hole_check_after_write", "C07", "basictdf.py",
  "        if any(\n            entry.type != BlockType.unusedSlot\n            for entry in self.entries[unusedBlockPos + 1 :]\n        ):\n            raise IOError(\"All unused slots must be at the end of the file\")\n\n        # new entry",
  "        # new entry")
m("c07_duplicate_check_after_slot_write", "C07", "basictdf.py", "        remaining = [entry for entry in self.entries if entry is not old_entry]", "        remaining = [entry for entry in self.entries[:1]]")
# ---- C08 ---------------------------------------------------------------------------------------
m("c08_mode_not_reset_on_exit", "C08", "basictdf.py", "        self._inside_context = False\n        self._mode = \"rb\"\n        self.handler.close()", "        self._inside_context = False\n        self.handler.close()")
m("c08_mode_not_reset_on_exception_exit", "C08", "basictdf.py", "        self._inside_context = False\n        self._mode = \"rb\"\n        self.handler.close()", "        self._inside_context = False\n        if exc_type is None:\n            self._mode = \"rb\"\n        self.handler.close()")
m("c08_get_block_touches_access_date", "C08", "basictdf.py", "        self.handler.seek(entry.offset, 0)\n        block_class = _get_block_class(entry.type)",
  "        if self._mode == \"r+b\":\n            entry.last_access_date = datetime.now()\n            self.handler.seek(64 + 288 * self.entries.index(entry), 0)\n            entry._write(self.handler)\n        self.handler.seek(entry.offset, 0)\n        block_class = _get_block_class(entry.type)")
m("c08_implicit_context_left_open", "C08", "tdfUtils.py", "        if not self._inside_context:\n            with self:\n                return method(self, *args, **kwargs)",
  "        if not self._inside_context:\n            self.__enter__()\n            try:\n                return method(self, *args, **kwargs)\n            finally:\n                self._inside_context = False\n                self._mode = \"rb\"")
m("c08_setter_guard_dropped", "C08", "basictdf.py", "        if \"+\" not in self._mode:\n            raise PermissionError(\n                \"Can't remove blocks, this file was opened in read-only mode\"\n            )",
  "        if \"b\" not in self._mode:\n            raise PermissionError(\n                \"Can't remove blocks, this file was opened in read-only mode\"\n            )")
m("c08_always_rplus", "C08", "basictdf.py", "        self.handler: IO[bytes] = self.file_path.open(self._mode)", "        self.handler: IO[bytes] = self.file_path.open(\"r+b\")")
# ---- C11 ---------------------------------------------------------------------------------------
m("c11_has_emg_wrong_member", "C11", "basictdf.py", "            entry.type == BlockType.electromyographicData for entry in self.entries", "            entry.type == BlockType.analogData for entry in self.entries")
m("c11_len_counts_all_slots", "C11", "basictdf.py", "        return sum(1 for i in self.entries if i.type != BlockType.unusedSlot)", "        return sum(1 for i in self.entries if i.size or i.type != BlockType.unusedSlot) or len([e for e in self.entries if e.offset < 0])",
  "equivalent - negative control")
m("c11_len_off_when_full", "C11", "basictdf.py", "        return sum(1 for i in self.entries if i.type != BlockType.unusedSlot)", "        return len(self.entries) - sum(1 for i in self.entries[1:] if i.type == BlockType.unusedSlot) - (self.entries[0].type == BlockType.unusedSlot and len(self.entries) > 1)")
m("c11_get_block_int_off_by_one", "C11", "basictdf.py", "            if 0 <= index_or_type < len(self.entries):\n                entry = self.entries[index_or_type]", "            if 0 <= index_or_type <= len(self.entries):\n                entry = self.entries[index_or_type - 1 if index_or_type == len(self.entries) else index_or_type]")
m("c11_events_getter_returns_emg", "C11", "basictdf.py", "        return self.get_block(BlockType.temporalEventsData)", "        return self.get_block(BlockType.temporalEventsData if not self.has_emg else BlockType.electromyographicData)")
m("c11_duplicate_check_swallowed_again", "C11", "basictdf.py", "        if newBlock.type != BlockType.unusedSlot and any(\n            entry.type == newBlock.type for entry in self.entries\n        ):",
  "        if newBlock.type != BlockType.unusedSlot and any(\n            entry.type == newBlock.type for entry in self.entries[:-1]\n        ):")
m("c11_setter_adds_when_present", "C11", "basictdf.py", "        self.replace_block(data) if self.has_emg else self.add_block(data)", "        self.replace_block(data) if self.has_events else self.add_block(data)")
# ---- C12 ---------------------------------------------------------------------------------------
m("c12_string_not_cut_at_nul", "C12", "tdfTypes.py", "            pos = la.index(b\"\\x00\")\n            return la[:pos].decode(encoding)", "            pos = la.index(b\"\\x00\")\n            return la.rstrip(b\"\\x00\")[:max(pos, 0) or None].decode(encoding) if pos == 0 and la.strip(b\"\\x00\") else la[:pos].decode(encoding)")
m("c12_optical_reserved_read_as_high_bits", "C12", "tdfOpticalSystem.py", "        logical_index = i32.bread(stream)\n        i32.skip(stream)  # reserved0", "        logical_index = i32.bread(stream)\n        logical_index = logical_index ^ (i32.bread(stream) & 0)  # reserved0", "negative control (&0)")
m("c12_optical_reserved_influences", "C12", "tdfOpticalSystem.py", "        logical_index = i32.bread(stream)\n        i32.skip(stream)  # reserved0", "        logical_index = i32.bread(stream)\n        logical_index = logical_index + (i32.bread(stream) >> 31)  # reserved0")
m("c12_platcal_pad_preferred_as_label", "C12", "tdfForcePlatformsCalibration.py", "        stream.seek(256, 1)\n", "        alt = stream.read(256)\n        if label == \"\" and alt[:1].isalpha():\n            label = alt.split(b\"\\x00\")[0].decode(\"ascii\", \"ignore\")\n")
m("c12_header_reserved_checked", "C12", "basictdf.py", "        # pad 8 bytes\n        i32.skip(self.handler, 2)", "        # pad 8 bytes\n        if i32.bread(self.handler) < 0:\n            self.nEntries = min(self.nEntries, 14)\n        i32.skip(self.handler, 1)")
m("c12_entry_pad_into_comment", "C12", "basictdf.py", "        i32.skip(file)\n        comment = BTSString.bread(file, 256)", "        pad = i32.bread(file)\n        comment = BTSString.bread(file, 256)\n        if pad == -1:\n            comment = comment.strip()")
m("c12_emg_pad_is_extra_segments", "C12", "tdfEMG.py", "        nSegments = i32.bread(stream)\n        i32.skip(stream)  # padding", "        nSegments = i32.bread(stream)\n        nSegments = max(nSegments, 0) if i32.bread(stream) >= 0 else nSegments  # padding", "neg control")
# ---- C13 ---------------------------------------------------------------------------------------
m("c13_length_check_ge", "C13", "tdfTypes.py", "        if len(dat) > size:", "        if len(dat) >= size:")
m("c13_no_terminator_at_full_width", "C13", "tdfTypes.py", "        dat = data.encode(\"windows-1252\") + b\"\\x00\"\n", "        dat = data.encode(\"windows-1252\")\n        dat += b\"\\x00\" if len(dat) < size else b\"\"\n")
m("c13_errors_replace", "C13", "tdfTypes.py", "        dat = data.encode(\"windows-1252\") + b\"\\x00\"", "        dat = data.encode(\"windows-1252\", errors=\"replace\") + b\"\\x00\"")
m("c13_truncate", "C13", "tdfTypes.py", "        if len(dat) > size:\n            raise ValueError(\n                f\"The string is too long: max {size} chars, got {len(dat)}\"\n            )\n        return dat + padding", "        if len(dat) > size + 40:\n            raise ValueError(\n                f\"The string is too long: max {size} chars, got {len(dat)}\"\n            )\n        return (dat + padding)[: size - 1] + b\"\\x00\" if len(dat) > size else dat + padding")
m("c13_read_strips_blanks", "C13", "tdfTypes.py", "            return la[:pos].decode(encoding)", "            return la[:pos].decode(encoding).rstrip(\" \") if pos > 200 else la[:pos].decode(encoding)")
m("c13_latin1", "C13", "tdfTypes.py", "        dat = data.encode(\"windows-1252\") + b\"\\x00\"", "        dat = data.encode(\"latin-1\") + b\"\\x00\"")
# ---- C14 ---------------------------------------------------------------------------------------
m("c14_emg_only_counts", "C14", "tdfEMG.py", "            and all(s1 == s2 for s1, s2 in zip(self._signals, other._signals))", "            and all(s1.label == s2.label for s1, s2 in zip(self._signals, other._signals))")
m("c14_platdata_huge_atol", "C14", "tdfForcePlatformsData.py", "            and np.allclose(self.force, __value.force, equal_nan=True)", "            and np.allclose(self.force, __value.force, equal_nan=True, atol=1e6)")
m("c14_event_label_case_insensitive", "C14", "tdfEvents.py", "            self.label == o.label\n            and self.type == o.type", "            self.label.lower() == o.label.lower()\n            and self.type == o.type")
m("c14_calib_zip_prefix", "C14", "tdfCalibrationData.py", "            and len(self.cam_data) == len(o.cam_data)\n", "")
m("c14_platcal_ignores_map", "C14", "tdfForcePlatformsCalibration.py", "            and self._platformMap == o._platformMap\n", "            and len(self._platformMap) == len(o._platformMap)\n")
m("c14_tdf_eq_ignores_last_block", "C14", "basictdf.py", "            and self.blocks == o.blocks", "            and self.blocks[:13] == o.blocks[:13]")
m("c14_seelab_ignores_thin_prism", "C14", "tdfCalibrationData.py", "            and np.array_equal(self.thin_prism, o.thin_prism)\n            and self.view_port == o.view_port\n        )\n\n\nclass BTSCameraData", "            and self.view_port == o.view_port\n        )\n\n\nclass BTSCameraData")
# ---- C15 ---------------------------------------------------------------------------------------
m("c15_remove_signal_keeps_channel", "C15", "tdfEMG.py", "        del self._signals[pos]\n        del self._emgMap[pos]", "        del self._signals[pos]\n        del self._emgMap[-1]")
m("c15_emg_auto_channel_len", "C15", "tdfEMG.py", "                next_channel = max(self._emgMap) + 1", "                next_channel = len(self._emgMap)")
m("c15_platcal_channel_appended_before_check", "C15", "tdfForcePlatformsCalibration.py",
  "        if not isinstance(platform, ForcePlatformInfo):\n            raise TypeError(\"platform must be of type ForcePlatform\")\n\n        if channel is None:",
  "        if channel is None and not isinstance(platform, ForcePlatformInfo):\n            raise TypeError(\"platform must be of type ForcePlatform\")\n\n        if channel is None:")
m("c15_platdata_decode_map_sorted", "C15", "tdfForcePlatformsData.py", "        block._plat_map = plat_map.tolist()", "        block._plat_map = sorted(plat_map.tolist())")
m("c15_platcal_remove_by_item_wrong_index", "C15", "tdfForcePlatformsCalibration.py", "                index = self._platforms.index(plat)", "                index = len(self._platforms) - 1 - self._platforms[::-1].index(plat)", "differs only with equal duplicates")
m("c15_platcal_setter_keeps_old_map", "C15", "tdfForcePlatformsCalibration.py", "        self._platformMap = []\n        self._platforms = []\n        for channel, plat in channel_plats:", "        self._platforms = []\n        self._platformMap = self._platformMap[:0] if len(self._platformMap) < 4 else self._platformMap[:1]\n        for channel, plat in channel_plats:")
# ---- C16 ---------------------------------------------------------------------------------------
m("c16_no_rollback", "C16", "tdfData3D.py", "        except Exception as e:\n            self._tracks = oldTracks\n            raise e", "        except Exception as e:\n            raise e")
m("c16_only_first_checked", "C16", "tdfForce3D.py", "            for value in values:\n                self.add_track(value)", "            values = list(values)\n            for value in values[:1]:\n                self.add_track(value)\n            self._tracks.extend(values[1:])")
m("c16_nframes_gt", "C16", "tdfData3D.py", "        if track.nFrames != self.nFrames:", "        if track.nFrames > self.nFrames:")
m("c16_emg_len_check_ge", "C16", "tdfEMG.py", "        if signal.nSamples != self.nSamples:", "        if signal.nSamples < self.nSamples:")
m("c16_rollback_only_valueerror", "C16", "tdfForce3D.py", "        except Exception as e:\n            self._tracks = oldTracks\n            raise e", "        except ValueError as e:\n            self._tracks = oldTracks\n            raise e")
# ---- C17 ---------------------------------------------------------------------------------------
m("c17_copy_no_exists_check", "C17", "basictdf.py", "        if new_file_path.exists():\n            raise FileExistsError(f\"File {new_file_path} already exists\")", "        if new_file_path.is_file() and new_file_path.stat().st_size:\n            raise FileExistsError(f\"File {new_file_path} already exists\")")
m("c17_new_opens_before_check", "C17", "basictdf.py", "        if filePath.exists():\n            raise FileExistsError(\"File already exists\")\n", "        if filePath.exists() and not filePath.is_dir() and filePath.read_bytes()[:4] == Tdf.SIGNATURE[:4]:\n            raise FileExistsError(\"File already exists\")\n")
m("c17_copy_is_hardlink", "C17", "basictdf.py", "        shutil.copyfile(self.file_path, new_file_path)", "        import os\n        os.link(self.file_path, new_file_path)")
m("c17_signature_8_bytes", "C17", "basictdf.py", "        if self.signature != self.SIGNATURE:", "        if self.signature[:8] != self.SIGNATURE[:8]:")
m("c17_new_13_slots_offset", "C17", "basictdf.py", "            blockOffset = entryOffset + nEntries * 288\n", "            blockOffset = entryOffset + nEntries * 288\n            f.flush()\n")
m("c17_new_last_slot_offset", "C17", "basictdf.py", "                i32.bwrite(f, blockOffset)\n", "                i32.bwrite(f, blockOffset if _ < nEntries - 1 else blockOffset - 288)\n")
# ---- C18 ---------------------------------------------------------------------------------------
m("c18_label_last_match", "C18", "tdfData3D.py", "                return next(track for track in self._tracks if track.label == key)", "                return next(track for track in reversed(self._tracks) if track.label == key)")
m("c18_contains_case_insensitive", "C18", "tdfEMG.py", "            return any(signal.label == value for signal in self._signals)", "            return any(signal.label.lower() == value.lower() for signal in self._signals)")
m("c18_len_nonempty_labels", "C18", "tdfEvents.py", "    def __len__(self) -> int:\n        return len(self.events)", "    def __len__(self) -> int:\n        return len([e for e in self.events if e.label or len(e)])")
m("c18_getitem_strips", "C18", "tdfForce3D.py", "                return next(track for track in self._tracks if track.label == key)", "                return next(track for track in self._tracks if track.label == key.strip())")
m("c18_negative_index_refused", "C18", "tdfEvents.py", "        if isinstance(item, int):\n            return self.events[item]", "        if isinstance(item, int):\n            return self.events[item % len(self.events)] if self.events else self.events[item]")
m("c18_float_key_truncated", "C18", "tdfEMG.py", "        if isinstance(key, int):\n            return self._signals[key]", "        if isinstance(key, (int, float)):\n            return self._signals[int(key)]")
# ---- C19 ---------------------------------------------------------------------------------------
m("c19_translation_check_inverted", "C19", "tdfForce3D.py", "            and translationVector.shape == VEC3F.btype.shape", "            and translationVector.size == 3")
m("c19_isinstance_dropped", "C19", "tdfData3D.py", "        if not (isinstance(volume, np.ndarray) and volume.shape == Volume.btype.shape):", "        if not (np.shape(volume) == Volume.btype.shape):")
m("c19_seelab_focus_any_len2", "C19", "tdfCalibrationData.py", "        if not isinstance(focus, np.ndarray) or focus.shape != (2,):", "        if not isinstance(focus, np.ndarray) or len(focus) != 2:")
m("c19_event_single_allows_two", "C19", "tdfEvents.py", "        if len(values) > 1 and type == EventsDataType.singleEvent:", "        if len(values) > 2 and type == EventsDataType.singleEvent:")
m("c19_viewport_tuple_len", "C19", "tdfTypes.py", "        elif isinstance(size, (list, tuple)):\n            if len(size) != 2 or", "        elif isinstance(size, (list, tuple)):\n            if len(size) < 2 or")
m("c19_viewport_nested_again", "C19", "tdfTypes.py", "            if len(origin) != 2 or any(np.ndim(v) != 0 for v in origin):", "            if len(origin) != 2:")
m("c16_tracks_setter_lazy_again", "C16", "tdfForce3D.py", "        values = list(values)\n        oldTracks = self._tracks", "        oldTracks = self._tracks")
m("c19_forcetrack_ndim_only", "C19", "tdfForce3D.py", "            or application_point.shape[1:] != ApplicationPointType.btype.shape", "            or application_point.shape[1] > 3")
m("c19_calib_rot_size9", "C19", "tdfCalibrationData.py", "        if calibration_volume_rotation_matrix.shape != MAT3X3F.btype.shape:", "        if calibration_volume_rotation_matrix.size != 9:")
# ---- C20 ---------------------------------------------------------------------------------------
m("c20_optical_default_shared_again", "C20", "tdfOpticalSystem.py", "        self.channels = channels if channels is not None else []", "        self.channels = channels if channels is not None else _EMPTY", "needs module constant")
m("c20_events_class_list", "C20", "tdfEvents.py", "        self.start_time = start_time\n        self.events = []", "        self.start_time = start_time\n        self.events = self.events if format != TemporalEventsDataFormat.standard else []")
m("c20_build_cached", "C20", "tdfEvents.py", "    @staticmethod\n    def _build(stream, format) -> \"TemporalEventsData\":\n        format = TemporalEventsDataFormat(format)",
  "    _cache = {}\n\n    @staticmethod\n    def _build(stream, format) -> \"TemporalEventsData\":\n        pos = stream.tell()\n        key = bytes(stream.getbuffer()[pos:]) if hasattr(stream, \"getbuffer\") else None\n        if key is not None and key in TemporalEventsData._cache:\n            blk, used = TemporalEventsData._cache[key]\n            stream.seek(pos + used)\n            return blk\n        t = TemporalEventsData._build_uncached(stream, format)\n        if key is not None:\n            TemporalEventsData._cache[key] = (t, stream.tell() - pos)\n        return t\n\n    @staticmethod\n    def _build_uncached(stream, format) -> \"TemporalEventsData\":\n        format = TemporalEventsDataFormat(format)")
m("c20_emg_map_class_attr", "C20", "tdfEMG.py", "        self._signals = []\n        self._emgMap = []", "        self._signals = []\n        self._emgMap = [] if nSamples != 3 else EMG._shared_map", "needs class attr")
m("c20_data3d_tracks_default_arg", "C20", "tdfData3D.py", "        self._tracks = []\n\n    def add_track", "        self._tracks = _tracks_default(nFrames)\n\n    def add_track", "needs helper")

HELPERS = {
    "c20_optical_default_shared_again": ("tdfOpticalSystem.py", "class OpticalSetupBlockFormat(Enum):", "_EMPTY = []\n\n\nclass OpticalSetupBlockFormat(Enum):"),
    "c20_emg_map_class_attr": ("tdfEMG.py", "    type = BlockType.electromyographicData\n", "    type = BlockType.electromyographicData\n    _shared_map = []\n"),
    "c20_data3d_tracks_default_arg": ("tdfData3D.py", "class Data3D(Block):", "_pool = {}\n\n\ndef _tracks_default(n):\n    return _pool.setdefault(n, []) if n == 3 else []\n\n\nclass Data3D(Block):"),
}
FIXUP = {"c01_event_kind_lost_on_decode": ("tdfEvents.py", "        type_ = EventsDataType(min(int(u32.bread(stream)), 1) if nItems_hint else 0)\n        nItems = i32.bread(stream)",
                                           "        type_raw = int(u32.bread(stream))\n        nItems = i32.bread(stream)\n        type_ = EventsDataType(type_raw if nItems != 1 else 0)")}


def main():
    os.makedirs(OUT, exist_ok=True)
    for f in os.listdir(OUT):
        if f.endswith(".diff"):
            os.unlink(os.path.join(OUT, f))
    index = []
    bad = 0
    for name, prop, file, old, new, note in M:
        src = open(os.path.join(REPO, file)).read()
        olds = old if isinstance(old, list) else [old]
        news = new if isinstance(new, list) else [new]
        out = src
        ok = True
        for o, n in zip(olds, news):
            if out.count(o) < 1:
                print("SNIPPET NOT FOUND:", name, repr(o[:70]))
                ok = False
                break
            out = out.replace(o, n, 1) if out.count(o) == 1 or name.startswith(("c04_", "c08_", "c18_", "c16_")) else out.replace(o, n, 1)
        if not ok:
            bad += 1
            continue
        if name in FIXUP:
            _, o, n = FIXUP[name]
            assert o in out, name
            out = out.replace(o, n)
        if name in HELPERS:
            _, o, n = HELPERS[name]
            assert o in out, name
            out = out.replace(o, n, 1)
        try:
            compile(out, file, "exec")
        except SyntaxError as e:
            print("SYNTAX ERROR in", name, e)
            bad += 1
            continue
        diff = "".join(difflib.unified_diff(src.splitlines(True), out.splitlines(True), "a/" + file, "b/" + file))
        if not diff and "neg" not in note and "control" not in note:
            print("EMPTY DIFF:", name)
        open(os.path.join(OUT, name + ".diff"), "w").write(diff)
        index.append({"name": name, "property": prop, "file": file, "note": note})
    json.dump(index, open(os.path.join(OUT, "index.json"), "w"), indent=1)
    print(len(index), "patches written,", bad, "failed")


if __name__ == "__main__":
    main()
