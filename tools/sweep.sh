#!/bin/bash
# seed sweep of all registered checks on the unchanged tree (evidence redirected; not a registered check)
# usage: tools/sweep.sh "<seeds>" <tier>
cd "$(dirname "$0")/.."
seeds="${1:-0 1 2 3}"; tier="${2:-quick}"
tmp=$(mktemp -d /dev/shm/vf_sweep_XXXX)
bad=0
for s in $seeds; do
  for i in $(seq -w 1 20); do
    out=$(VERIF_SEED=$s VERIF_EVIDENCE_DIR=$tmp/ev VERIF_REPLAY_DIR=$tmp/replay ./check C$i --tier $tier 2>&1); rc=$?
    if [ $rc -ne 0 ]; then bad=$((bad+1)); echo "seed=$s C$i rc=$rc"; echo "$out" | grep -E "key=|INCONC" | head -5; fi
  done
  echo "seed $s done (bad so far: $bad)"
done
rm -rf "$tmp"
echo "SWEEP FINISHED bad=$bad"
