#!/usr/bin/env python3
"""Ingest a sub-agent's deliverables from /tmp/mut_<ID>: confirm (scratch copy) that each mutation applies, keeps the
repository's tests green, that its demo passes on clean code and fails with the mutation; run the target check (and, if it
misses, all checks); store under /verif/seeded/<ID>-<A|B>/.  usage: ingest_agent.py C05 [--all]"""
import json, os, shutil, subprocess, sys
pid = sys.argv[1]
run_all = "--all" in sys.argv
rnd = "2" if "--round2" in sys.argv else ("3" if "--round3" in sys.argv else ("4" if "--round4" in sys.argv else ("5" if "--round5" in sys.argv else ("6" if "--round6" in sys.argv else ("7" if "--round7" in sys.argv else ("8" if "--round8" in sys.argv else ("9" if "--round9" in sys.argv else ("A" if "--round10" in sys.argv else ("B" if "--round11" in sys.argv else "")))))))))
src = f"/tmp/mut{rnd}_{pid}"
NAMES = {"": {"A": "A", "B": "B"}, "2": {"A": "C", "B": "D"}, "3": {"A": "E"}, "4": {"A": "F", "B": "G"}, "5": {"A": "H", "B": "I"}, "6": {"A": "H", "B": "I"}, "7": {"A": "J", "B": "K"}, "8": {"A": "J", "B": "K"}, "9": {"A": "L", "B": "M"}, "A": {"A": "L", "B": "M"}, "B": {"A": "N", "B": "O"}}[rnd]
here = os.path.dirname(os.path.abspath(__file__))
notes = open(os.path.join(src, "NOTES.md")).read() if os.path.exists(os.path.join(src, "NOTES.md")) else ""
def demo_rc_with(part):
    """exit status of the demo with only `part` applied (round 3: each edit alone must be harmless)"""
    import tempfile
    sc = tempfile.mkdtemp(prefix="vfpart_", dir="/dev/shm")
    try:
        shutil.copytree("/repo/src", os.path.join(sc, "src"))
        p = subprocess.run(["patch", "-p1", "-s", "-d", sc, "-i", part], capture_output=True, text=True)
        if p.returncode != 0:
            return "patch-failed"
        d = subprocess.run(["/venv/bin/python", os.path.join(src, "demoA.py")], capture_output=True, text=True, cwd=sc,
                           env=dict(os.environ, PYTHONPATH=os.path.join(sc, "src"), PYTHONDONTWRITEBYTECODE="1"))
        return d.returncode
    finally:
        shutil.rmtree(sc, ignore_errors=True)


for X in NAMES:
    patch, demo = os.path.join(src, f"mutation{X}.diff"), os.path.join(src, f"demo{X}.py")
    if not os.path.exists(patch):
        print(pid, X, "no patch"); continue
    out = f"/dev/shm/ingest_{pid}_{X}.json"
    cmd = [os.path.join(here, "eval_mutant.py"), patch, "--props", pid]
    if os.path.exists(demo):
        cmd += ["--demo", demo]
    p = subprocess.run(cmd, capture_output=True, text=True, env=dict(os.environ, EVAL_OUT=out))
    if not os.path.exists(out):
        print(pid, X, "eval failed:", (p.stdout + p.stderr)[-500:]); continue
    r = json.load(open(out)); os.unlink(out)
    caught = r["props"].get(pid, {}).get("rc") == 1
    allres = None
    if run_all:
        p2 = subprocess.run([os.path.join(here, "eval_mutant.py"), patch], capture_output=True, text=True, env=dict(os.environ, EVAL_OUT=out))
        if os.path.exists(out):
            allres = json.load(open(out)); os.unlink(out)
    Y = NAMES[X]
    dst = os.path.join(here, "..", "seeded", f"{pid}-{Y}")
    os.makedirs(dst, exist_ok=True)
    shutil.copy(patch, os.path.join(dst, "patch.diff"))
    if os.path.exists(demo):
        shutil.copy(demo, os.path.join(dst, "demo.py"))
    meta = {
        "id": f"{pid}-{Y}", "property": pid, "origin": "independent sub-agent given only the property text and a scratch worktree"
                                                   + (" (round 2: asked for boundary values, rare API paths, call orders)" if rnd else ""),
        "base_commit": subprocess.run(["git", "-C", "/repo", "rev-parse", "--short", "HEAD"], capture_output=True, text=True).stdout.strip(),
        "needs_to_manifest": "see agent_notes", "agent_notes": notes,
        "confirmed": {"pytest_with_mutation": r.get("pytest"), "unittest_test_Tdf_with_mutation": r.get("unittest_Tdf"),
                      "demo_rc_clean": r.get("demo_clean_rc"), "demo_rc_with_mutation": r.get("demo_with_mutation_rc")},
        "ran": [f"tools/eval_mutant.py seeded/{pid}-{Y}/patch.diff --props {pid} --demo seeded/{pid}-{Y}/demo.py (scratch copy of /repo, quick tier)"],
        "target_check": r["props"].get(pid), "caught_by_target_quick": caught,
        "all_checks_quick": {k: {"rc": v["rc"], "keys": v["keys"][:3]} for k, v in allres["props"].items()} if allres else None,
        "caught_by": (allres or r).get("caught_by"),
    }
    if rnd in ("4", "5", "6", "7", "8", "9", "A", "B"):
        meta["origin"] += " (round 4/5: had to survive the agent's own randomised smoke test fuzz.py, kept beside the patch)"
        if os.path.exists(os.path.join(src, "fuzz.py")):
            shutil.copy(os.path.join(src, "fuzz.py"), os.path.join(dst, "agent_fuzz.py"))
    if rnd == "3":
        meta["origin"] += " (round 3: two cooperating edits, each harmless alone)"
        parts = {}
        for part in ("part1.diff", "part2.diff"):
            pp = os.path.join(src, part)
            if os.path.exists(pp):
                shutil.copy(pp, os.path.join(dst, part))
                parts[part] = {"demo_rc_alone": demo_rc_with(pp)}
        meta["parts"] = parts
    json.dump(meta, open(os.path.join(dst, "meta.json"), "w"), indent=1)
    print(f"{pid}-{Y}: tests[{r.get('pytest','')[:20]} | {r.get('unittest_Tdf','')}] demo clean/mut={r.get('demo_clean_rc')}/{r.get('demo_with_mutation_rc')} "
          f"target rc={r['props'].get(pid,{}).get('rc')} keys={r['props'].get(pid,{}).get('keys',[])[:3]} caught_by={meta['caught_by']}")
