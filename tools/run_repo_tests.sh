#!/bin/bash
# Runs (a) the pinned 39-test baseline and (b) the 12 upstream container cases of tests/test_Tdf.py, which the
# pinned pytest cannot collect, through unittest from a scratch copy of tests/ (nothing is written under /repo).
REPO="${VERIF_REPO:-/repo}"
set -o pipefail
( cd "$REPO" && PYTHONDONTWRITEBYTECODE=1 /venv/bin/python -m pytest -q -p no:cacheprovider --timeout=900 --continue-on-collection-errors 2>&1 | tail -2 )
S=$(mktemp -d /dev/shm/vf_tests_XXXX)
cp -r "$REPO/tests" "$S/tests"
( cd "$S" && PYTHONDONTWRITEBYTECODE=1 PYTHONPATH="$REPO/src" /venv/bin/python -m unittest tests.test_Tdf 2>&1 | tail -4 )
rc=$?
rm -rf "$S"
exit $rc
