#!/usr/bin/env python3
"""Re-evaluate seeded/<id>/patch.diff against the current checks (scratch copy of /repo) and refresh meta.json.
usage: reeval_seeded.py [id-prefix ...]   (env REEVAL_ALL=1: also run every other check for the missed ones)"""
import json, os, subprocess, sys, glob
here = os.path.dirname(os.path.abspath(__file__))
only = sys.argv[1:]
for d in sorted(glob.glob(os.path.join(here, "..", "seeded", "*"))):
    mid = os.path.basename(d)
    if only and not any(mid.startswith(o) for o in only):
        continue
    mp = os.path.join(d, "meta.json")
    m = json.load(open(mp))
    pid = m["property"]
    out = f"/dev/shm/reeval_{mid}.json"
    cmd = [os.path.join(here, "eval_mutant.py"), os.path.join(d, "patch.diff"), "--props", pid]
    if os.path.exists(os.path.join(d, "demo.py")):
        cmd += ["--demo", os.path.join(d, "demo.py")]
    subprocess.run(cmd, capture_output=True, text=True, env=dict(os.environ, EVAL_OUT=out))
    if not os.path.exists(out):
        print(mid, "eval failed"); continue
    r = json.load(open(out)); os.unlink(out)
    caught = r["props"].get(pid, {}).get("rc") == 1
    m["target_check"] = r["props"].get(pid)
    m["caught_by_target_quick"] = caught
    m["confirmed"] = {"pytest_with_mutation": r.get("pytest"), "unittest_test_Tdf_with_mutation": r.get("unittest_Tdf"),
                      "demo_rc_clean": r.get("demo_clean_rc"), "demo_rc_with_mutation": r.get("demo_with_mutation_rc")}
    if caught:
        m["caught_by"] = sorted(set([pid] + [x for x in (m.get("caught_by") or []) if x != pid]))
    elif os.environ.get("REEVAL_ALL"):
        subprocess.run([os.path.join(here, "eval_mutant.py"), os.path.join(d, "patch.diff")], capture_output=True, text=True,
                       env=dict(os.environ, EVAL_OUT=out))
        if os.path.exists(out):
            a = json.load(open(out)); os.unlink(out)
            m["all_checks_quick"] = {k: {"rc": v["rc"], "keys": v["keys"][:3]} for k, v in a["props"].items()}
            m["caught_by"] = a.get("caught_by")
    json.dump(m, open(mp, "w"), indent=1)
    print(f"{mid}: target rc={m['target_check'].get('rc')} keys={m['target_check'].get('keys', [])[:2]} caught_by={m.get('caught_by')}", flush=True)
