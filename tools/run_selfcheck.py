#!/usr/bin/env python3
"""Runs every selfcheck/*.diff through tools/eval_mutant.py against its target property (not a registered check)."""
import json, os, subprocess, sys
from concurrent.futures import ThreadPoolExecutor
here = os.path.dirname(os.path.abspath(__file__))
sc = os.path.join(here, "..", "selfcheck")
index = json.load(open(os.path.join(sc, "index.json")))
only = sys.argv[1:]  # optional name prefixes
tier = os.environ.get("SC_TIER", "quick")


def run(e):
    if only and not any(e["name"].startswith(o) for o in only):
        return None
    props = e["property"] if e["property"] != "NEG" else "C04,C10"
    out = f"/dev/shm/sc_{e['name']}.json"
    p = subprocess.run([os.path.join(here, "eval_mutant.py"), os.path.join(sc, e["name"] + ".diff"), "--props", props, "--tier", tier],
                       capture_output=True, text=True, env=dict(os.environ, EVAL_OUT=out))
    try:
        r = json.load(open(out)); os.unlink(out)
    except Exception:
        r = {"error": (p.stdout + p.stderr)[-400:]}
    r["name"] = e["name"]; r["target"] = e["property"]; r["note"] = e.get("note", "")
    tgt = r.get("props", {}).get(e["property"], {})
    print(f"{e['name']:55s} tests={r.get('pytest','?')[:22]:22s} unittest={r.get('unittest_Tdf','?')[:12]:12s} "
          f"{e['property']} rc={tgt.get('rc')} {tgt.get('keys', [])[:2]} {r.get('error','')[:200]}", flush=True)
    return r


with ThreadPoolExecutor(max_workers=int(os.environ.get("SC_JOBS", "3"))) as ex:
    res = [r for r in ex.map(run, index) if r]
json.dump(res, open(os.path.join(sc, "results.json" if not only else "results_partial.json"), "w"), indent=1)
missed = [r["name"] for r in res if r.get("props", {}).get(r["target"], {}).get("rc") != 1 and r["target"] != "NEG" and "control" not in r["note"]]
print("MISSED:", missed)
