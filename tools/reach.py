#!/usr/bin/env python3
"""Reach audit: run every check's quick (or given) tier with VERIF_REACH on, merge what the shard processes executed
and list the statements of /repo/src/basictdf that no workload reached.  Not a registered check (no verdict).
usage: tools/reach.py [tier] [seed]   -> out/reach.json + a table on stdout"""
import glob, json, os, shutil, subprocess, sys, tempfile
from concurrent.futures import ThreadPoolExecutor
tier = sys.argv[1] if len(sys.argv) > 1 else "quick"
seed = sys.argv[2] if len(sys.argv) > 2 else "0"
here = os.path.dirname(os.path.abspath(__file__)); verif = os.path.dirname(here)
repo = os.environ.get("VERIF_REPO", "/repo"); src = os.path.join(repo, "src")
tmp = tempfile.mkdtemp(prefix="vf_reach_", dir="/dev/shm")
pids = [f"C{i:02d}" for i in range(1, 21)]
def run(pid):
    env = dict(os.environ, VERIF_REACH=os.path.join(tmp, "hits"), VERIF_SEED=seed,
               VERIF_EVIDENCE_DIR=os.path.join(tmp, "ev"), VERIF_REPLAY_DIR=os.path.join(tmp, "replay"))
    return pid, subprocess.run([os.path.join(verif, "check"), pid, "--tier", tier], env=env, capture_output=True).returncode
with ThreadPoolExecutor(4) as ex:
    rcs = dict(ex.map(run, pids))
def statements(path):
    out = set()
    def walk(co):
        for _, _, ln in co.co_lines():
            if ln is not None and ln > 0:
                out.add(ln)
        for c in co.co_consts:
            if hasattr(c, "co_lines"):
                walk(c)
    walk(compile(open(path).read(), path, "exec"))
    return out
hits, by_prop = {}, {}
for f in glob.glob(os.path.join(tmp, "hits", "*.json")):
    pid = os.path.basename(f).split("_")[0]
    for k, v in json.load(open(f)).items():
        hits.setdefault(k, set()).update(v)
        by_prop.setdefault(pid, {}).setdefault(k, set()).update(v)
res = {"tier": tier, "seed": seed, "rc": rcs, "files": {}, "per_property_statements": {}}
tot = hit = 0
for path in sorted(glob.glob(os.path.join(src, "basictdf", "*.py"))):
    rel = os.path.relpath(path, src)
    st = statements(path); h = hits.get(rel, set()) & st
    miss = sorted(st - h)
    tot += len(st); hit += len(h)
    res["files"][rel] = {"statements": len(st), "reached": len(h), "unreached_lines": miss}
    print(f"{rel:45s} {len(h):4d}/{len(st):4d}  unreached: {miss}")
for pid in pids:
    res["per_property_statements"][pid] = sum(len(v) for v in by_prop.get(pid, {}).values())
res["total"] = {"statements": tot, "reached": hit}
print("TOTAL", hit, "/", tot, "check exit codes:", {k: v for k, v in rcs.items() if v})
os.makedirs(os.path.join(verif, "out"), exist_ok=True)
json.dump(res, open(os.path.join(verif, "out", "reach.json"), "w"), indent=1)
shutil.rmtree(tmp, ignore_errors=True)
