"""Environment bootstrap: make sure the harness observes the repository's *working tree*.

* ``REPO``  – ``$VERIF_REPO`` or ``/repo``; ``REPO/src`` is forced to the front of ``sys.path``
  and ``basictdf.__file__`` is asserted to live under it.
* ``DEPS``  – ``/verif/.deps`` (git-ignored); icontract + asttokens are installed there, offline,
  from ``/opt/veriftools/wheels`` on first use (``ensure_deps``).
* ``scratch_dir`` – per-process directory under ``/dev/shm`` (fallback ``$TMPDIR``), removed at exit.
"""
from __future__ import annotations

import atexit
import os
import shutil
import subprocess
import sys
import tempfile
from pathlib import Path

VERIF = Path(__file__).resolve().parent.parent
REPO = Path(os.environ.get("VERIF_REPO", "/repo")).resolve()
DEPS = VERIF / ".deps"
OUT = VERIF / "out"
WHEELS = Path("/opt/veriftools/wheels")
CAPTURE = REPO / "tests" / "test_files" / "2838~aa~Walking 01.tdf"

_bootstrapped = False


def bootstrap() -> None:
    """Put REPO/src first on sys.path and verify that is what gets imported."""
    global _bootstrapped
    if _bootstrapped:
        return
    src = str(REPO / "src")
    sys.path[:] = [p for p in sys.path if p != src]
    sys.path.insert(0, src)
    for name in [m for m in sys.modules if m == "basictdf" or m.startswith("basictdf.")]:
        del sys.modules[name]
    import basictdf  # noqa

    got = Path(basictdf.__file__).resolve()
    if not str(got).startswith(src + os.sep):
        raise RuntimeError(f"basictdf imported from {got}, expected under {src}")
    _bootstrapped = True


def ensure_deps() -> bool:
    """Install icontract (+asttokens) into .deps offline if missing. Returns availability."""
    marker = DEPS / "icontract"
    if not marker.exists():
        DEPS.mkdir(exist_ok=True)
        import fcntl
        lock = open(DEPS / ".lock", "w")
        fcntl.flock(lock, fcntl.LOCK_EX)   # shards of one check may get here together on a fresh restore
    if not marker.exists():
        cmd = [
            sys.executable, "-m", "pip", "install", "--quiet", "--no-index",
            "--find-links", str(WHEELS), "--target", str(DEPS),
            "--disable-pip-version-check", "--no-warn-script-location",
            "icontract",
        ]
        try:
            subprocess.run(cmd, check=True, timeout=300, stdout=subprocess.DEVNULL,
                           stderr=subprocess.DEVNULL,
                           env={**os.environ, "PIP_NO_INDEX": "1"})
        except Exception:
            return False
    if str(DEPS) not in sys.path:
        sys.path.append(str(DEPS))
    try:
        import icontract  # noqa
        return True
    except Exception:
        return False


_scratch = None


def scratch_dir() -> Path:
    global _scratch
    if _scratch is None:
        base = os.environ.get("VF_SCRATCH_BASE")
        if not base or not os.path.isdir(base):
            base = "/dev/shm" if os.path.isdir("/dev/shm") and os.access("/dev/shm", os.W_OK) else None
        _scratch = Path(tempfile.mkdtemp(prefix="vf_", dir=base))
        atexit.register(lambda: shutil.rmtree(_scratch, ignore_errors=True))
    return _scratch


def harness_fault(e: BaseException) -> bool:
    """True when the exception was raised by harness code itself (innermost frame under /verif/vf):
    that is a bug of the machinery - inconclusive - never an observation about the library."""
    tb = e.__traceback__
    last = None
    while tb is not None:
        last = tb
        tb = tb.tb_next
    if last is None:
        return False
    fn = last.tb_frame.f_code.co_filename
    return fn.startswith(str(VERIF / "vf")) and isinstance(e, (NameError, AttributeError, TypeError, KeyError,
                                                              IndexError, UnboundLocalError, AssertionError,
                                                              ZeroDivisionError, ImportError))
