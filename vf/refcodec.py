"""Independent, layout-driven reference codec for the BTS TDF container and its nine writable blocks.

Written only with ``struct`` and ``bytes``; shares no code and no numpy dtypes with the repository.
``decode_block`` labels *every byte* it consumes with a span kind:

    value | count | reserved | pad | string | strtail

and fails if bytes are left over (``exact=True``) or it runs past the end.  Specs are plain JSON-able
dicts; samples are Python floats (float32 values are exact as doubles); a wholly missing frame is
``None``.
"""
from __future__ import annotations

import struct

SIGNATURE = bytes([0x82, 0x4B, 0x60, 0x41, 0xD3, 0x11, 0x84, 0xCA, 0x60, 0x00, 0xB6, 0xAC, 0x16, 0x68, 0x0C, 0x08])
HEADER = 64
ENTRY = 288
EMG_BIAS = 49  # header field = nSamples - 49; derived from the BTS capture, see selfcheck_capture()

TYPE_CODES = {
    "calib": 2, "data2D": 4, "data3D": 5, "optical": 6, "platCal": 7, "platData": 9,
    "emg": 11, "force3D": 12, "events": 16,
}
CODE_TYPES = {v: k for k, v in TYPE_CODES.items()}
KNOWN_TYPE_CODES = set(range(0, 17))
DONTCARE = ("reserved", "pad", "strtail")
ALLOW_FULL_WIDTH = False   # set by the C06 / C13 'full-width field' workloads only


class LayoutError(Exception):
    pass


# ------------------------------------------------------------------------------------------------
# primitive writer / reader
# ------------------------------------------------------------------------------------------------
class W:
    def __init__(self):
        self.parts = []

    def i32(self, v): self.parts.append(struct.pack("<i", v))
    def u32(self, v): self.parts.append(struct.pack("<I", v))
    def i16(self, v): self.parts.append(struct.pack("<h", v))
    def u16(self, v): self.parts.append(struct.pack("<H", v))
    def f32(self, *vs): self.parts.append(struct.pack("<%df" % len(vs), *vs))
    def f64(self, *vs): self.parts.append(struct.pack("<%dd" % len(vs), *vs))
    def zeros(self, n): self.parts.append(b"\x00" * n)
    def raw(self, b): self.parts.append(bytes(b))

    def string(self, width, s):
        b = s.encode("cp1252")
        if b"\x00" in b:
            raise LayoutError("string contains NUL")
        if len(b) == width and ALLOW_FULL_WIDTH:
            # foreign writers may fill a field completely (no room for a terminator); readers return it whole
            self.parts.append(b)
            return
        if len(b) + 1 > width:
            raise LayoutError("string does not fit its field")
        self.parts.append(b + b"\x00" * (width - len(b)))

    def bytes(self):
        return b"".join(self.parts)


class R:
    def __init__(self, data: bytes, base: int = 0):
        self.d = data
        self.p = 0
        self.spans = []  # (start, end, kind, name)

    def _take(self, n, kind, name):
        if n < 0 or self.p + n > len(self.d):
            raise LayoutError(f"ran past the end reading {name} ({n} bytes at {self.p}, have {len(self.d)})")
        b = self.d[self.p:self.p + n]
        if n:
            self.spans.append((self.p, self.p + n, kind, name))
        self.p += n
        return b

    def i32(self, name, kind="value"): return struct.unpack("<i", self._take(4, kind, name))[0]
    def u32(self, name, kind="value"): return struct.unpack("<I", self._take(4, kind, name))[0]
    def i16(self, name, kind="value"): return struct.unpack("<h", self._take(2, kind, name))[0]
    def u16(self, name, kind="value"): return struct.unpack("<H", self._take(2, kind, name))[0]
    def f32(self, n, name): return list(struct.unpack("<%df" % n, self._take(4 * n, "value", name)))
    def f64(self, n, name): return list(struct.unpack("<%dd" % n, self._take(8 * n, "value", name)))
    def i32s(self, n, name): return list(struct.unpack("<%di" % n, self._take(4 * n, "value", name)))
    def skip(self, n, kind, name): self._take(n, kind, name)

    def string(self, width, name):
        start = self.p
        raw = self._take(width, "string", name)
        self.spans.pop()
        z = raw.find(b"\x00")
        if z < 0:
            self.spans.append((start, start + width, "string", name))
            return raw.decode("cp1252")
        self.spans.append((start, start + z + 1, "string", name))
        if z + 1 < width:
            self.spans.append((start + z + 1, start + width, "strtail", name))
        return raw[:z].decode("cp1252")


def f32r(x: float) -> float:
    """round a double to the nearest float32 (as a double)"""
    return struct.unpack("<f", struct.pack("<f", x))[0]


# ------------------------------------------------------------------------------------------------
# presence runs
# ------------------------------------------------------------------------------------------------
def runs(mask):
    """maximal runs of True in mask -> [(start, length), ...]"""
    out = []
    i, n = 0, len(mask)
    while i < n:
        if mask[i]:
            j = i
            while j < n and mask[j]:
                j += 1
            out.append((i, j - i))
            i = j
        else:
            i += 1
    return out


SEG_ORDER_RNG = None   # when set: segment records (and their data, in the same order) are emitted in shuffled order


def encode_block_unsorted_segments(spec, rng) -> bytes:
    """same content, same layout, but the segment records of every run-length coded track in another order
    (the layout fixes each record and that the data follow in table order, not that the table is sorted)"""
    global SEG_ORDER_RNG
    SEG_ORDER_RNG = rng
    try:
        return encode_block(spec)
    finally:
        SEG_ORDER_RNG = None


def _enc_rle(w: W, frames, per_frame):
    """segment table + data of one run-length coded track. frames: list of list-of-float | None"""
    segs = runs([f is not None for f in frames])
    if SEG_ORDER_RNG is not None and len(segs) > 1:
        segs = list(segs)
        SEG_ORDER_RNG.shuffle(segs)
    w.i32(len(segs))
    w.zeros(4)
    for s, n in segs:
        w.i32(s)
        w.i32(n)
    for s, n in segs:
        for f in frames[s:s + n]:
            if isinstance(f, (int, float)):
                w.f32(f)
            else:
                if len(f) != per_frame:
                    raise LayoutError("frame width")
                w.f32(*f)


def _dec_rle(r: R, nframes, per_frame, name, scalar=False):
    nseg = r.i32(name + ".nSegments", "count")
    r.skip(4, "pad", name + ".pad")
    if nseg < 0:
        raise LayoutError("negative segment count")
    segs = []
    for k in range(nseg):
        s = r.i32(f"{name}.seg{k}.start", "count")
        n = r.i32(f"{name}.seg{k}.n", "count")
        segs.append((s, n))
    frames = [None] * nframes
    for s, n in segs:
        if s < 0 or n < 0 or s + n > nframes:
            raise LayoutError(f"{name}: segment ({s},{n}) outside 0..{nframes}")
        vals = r.f32(n * per_frame, name + ".data")
        for k in range(n):
            fr = vals[k * per_frame:(k + 1) * per_frame]
            frames[s + k] = fr[0] if scalar else fr
    return frames, segs


# ------------------------------------------------------------------------------------------------
# block encoders
# ------------------------------------------------------------------------------------------------
def encode_block(spec) -> bytes:
    t = spec["t"]
    w = W()
    if t == "data3D":
        if spec["format"] not in (1, 2):
            raise LayoutError("data3D format")
        w.i32(spec["nFrames"]); w.i32(spec["frequency"]); w.f32(spec["startTime"])
        w.u32(len(spec["tracks"]))
        w.f32(*spec["volume"]); w.f32(*spec["rot"]); w.f32(*spec["trans"])
        w.u32(spec["flag"])
        if spec["format"] == 1:
            w.i32(len(spec["links"])); w.zeros(4)
            for a, b in spec["links"]:
                w.u32(a); w.u32(b)
        for tr in spec["tracks"]:
            if len(tr["frames"]) != spec["nFrames"]:
                raise LayoutError("track length")
            w.string(256, tr["label"])
            _enc_rle(w, tr["frames"], 3)
    elif t == "emg":
        w.i32(len(spec["tracks"])); w.i32(spec["frequency"]); w.f32(spec["startTime"])
        w.i32(spec["nSamples"] - EMG_BIAS)
        for c in spec["map"]:
            w.i16(c)
        for tr in spec["tracks"]:
            w.string(256, tr["label"])
            _enc_rle(w, tr["frames"], 1)
    elif t == "force3D":
        w.i32(len(spec["tracks"])); w.i32(spec["frequency"]); w.f32(spec["startTime"])
        w.i32(spec["nFrames"])
        w.f32(*spec["volume"]); w.f32(*spec["rot"]); w.f32(*spec["trans"])
        w.zeros(4)
        for tr in spec["tracks"]:
            w.string(256, tr["label"])
            _enc_rle(w, tr["frames"], 9)
    elif t == "platData":
        w.i32(len(spec["plats"])); w.i32(spec["frequency"]); w.f32(spec["startTime"])
        w.i32(spec["nFrames"])
        for c in spec["map"]:
            w.u16(c)
        for pl in spec["plats"]:
            _enc_rle(w, pl["frames"], 6)
    elif t == "platCal":
        w.i32(len(spec["plats"])); w.zeros(4)
        for c in spec["map"]:
            w.i16(c)
        for pl in spec["plats"]:
            w.string(256, pl["label"])
            w.f32(*pl["size"]); w.f32(*pl["position"])
            w.zeros(256)
    elif t == "data2D":
        nC, nF = spec["nCams"], spec["nFrames"]
        w.i32(nC); w.i32(nF); w.i32(spec["frequency"]); w.f32(spec["startTime"])
        w.u32(spec["flags"])
        for c in spec["map"]:
            w.u16(c)
        cells = spec["cells"]  # [frame][cam] -> None | [[x,y],...]
        for cam in range(nC):
            for fr in range(nF):
                c = cells[fr][cam]
                w.u16(0 if c is None else len(c))
        for fr in range(nF):
            for cam in range(nC):
                c = cells[fr][cam]
                if c is not None:
                    for x, y in c:
                        w.f32(x, y)
    elif t == "calib":
        w.i32(len(spec["cams"])); w.i32(spec["model"])
        w.f32(*spec["volume"]); w.f32(*spec["rot"]); w.f32(*spec["trans"])
        for c in spec["map"]:
            w.i16(c)
        for cam in spec["cams"]:
            w.f64(*cam["rot"]); w.f64(*cam["trans"]); w.f64(*cam["focus"]); w.f64(*cam["center"])
            if spec["format"] == 1:
                w.f64(*cam["radial"]); w.f64(*cam["decentering"]); w.f64(*cam["thinprism"])
            elif spec["format"] == 2:
                if len(cam["xcoef"]) != 70 or len(cam["ycoef"]) != 70:
                    raise LayoutError("BTS camera needs 70 coefficients")
                w.f64(*cam["xcoef"]); w.f64(*cam["ycoef"])
            else:
                raise LayoutError("calib format")
            for v in cam["vp"]:
                w.i32(v)
    elif t == "optical":
        w.i32(len(spec["channels"])); w.zeros(4)
        for ch in spec["channels"]:
            w.i32(ch["index"]); w.zeros(4)
            w.string(32, ch["lens"]); w.string(32, ch["type"]); w.string(32, ch["name"])
            for v in ch["vp"]:
                w.i32(v)
    elif t == "events":
        w.i32(len(spec["events"])); w.f32(spec["startTime"])
        for ev in spec["events"]:
            w.string(256, ev["label"])
            w.u32(ev["type"]); w.u32(len(ev["values"]))
            w.f32(*ev["values"])
    else:
        raise LayoutError(f"unknown block kind {t}")
    return w.bytes()


# ------------------------------------------------------------------------------------------------
# block decoders
# ------------------------------------------------------------------------------------------------
def decode_block(t: str, fmt: int, data: bytes, exact: bool = True):
    """-> (spec, spans, aux).  aux['segs'] = per-track segment tables as found in the bytes."""
    r = R(data)
    aux = {"segs": []}
    if t == "data3D":
        if fmt not in (1, 2):
            raise LayoutError("data3D format")
        nF = r.i32("nFrames", "count"); freq = r.i32("frequency"); st = r.f32(1, "startTime")[0]
        nT = r.u32("nTracks", "count")
        vol = r.f32(3, "volume"); rot = r.f32(9, "rot"); tr_ = r.f32(3, "trans")
        flag = r.u32("flag")
        spec = {"t": t, "format": fmt, "nFrames": nF, "frequency": freq, "startTime": st,
                "volume": vol, "rot": rot, "trans": tr_, "flag": flag, "tracks": []}
        if fmt == 1:
            nL = r.i32("nLinks", "count"); r.skip(4, "pad", "links.pad")
            if nL < 0:
                raise LayoutError("negative link count")
            spec["links"] = [[r.u32(f"link{k}.a"), r.u32(f"link{k}.b")] for k in range(nL)]
        if nF < 0:
            raise LayoutError("negative frame count")
        for k in range(nT):
            label = r.string(256, f"track{k}.label")
            frames, segs = _dec_rle(r, nF, 3, f"track{k}")
            spec["tracks"].append({"label": label, "frames": frames})
            aux["segs"].append(segs)
    elif t == "emg":
        if fmt != 1:
            raise LayoutError("emg format")
        nS = r.i32("nSignals", "count"); freq = r.i32("frequency"); st = r.f32(1, "startTime")[0]
        nSm = r.i32("nSamples", "count") + EMG_BIAS
        if nS < 0 or nSm < 0:
            raise LayoutError("negative count")
        cmap = [r.i16(f"map{k}") for k in range(nS)]
        spec = {"t": t, "format": fmt, "frequency": freq, "startTime": st, "nSamples": nSm,
                "map": cmap, "tracks": []}
        for k in range(nS):
            label = r.string(256, f"signal{k}.label")
            frames, segs = _dec_rle(r, nSm, 1, f"signal{k}", scalar=True)
            spec["tracks"].append({"label": label, "frames": frames})
            aux["segs"].append(segs)
    elif t == "force3D":
        if fmt != 1:
            raise LayoutError("force3D format")
        nT = r.i32("nTracks", "count"); freq = r.i32("frequency"); st = r.f32(1, "startTime")[0]
        nF = r.i32("nFrames", "count")
        vol = r.f32(3, "volume"); rot = r.f32(9, "rot"); tr_ = r.f32(3, "trans")
        r.skip(4, "pad", "header.pad")
        if nT < 0 or nF < 0:
            raise LayoutError("negative count")
        spec = {"t": t, "format": fmt, "frequency": freq, "startTime": st, "nFrames": nF,
                "volume": vol, "rot": rot, "trans": tr_, "tracks": []}
        for k in range(nT):
            label = r.string(256, f"track{k}.label")
            frames, segs = _dec_rle(r, nF, 9, f"track{k}")
            spec["tracks"].append({"label": label, "frames": frames})
            aux["segs"].append(segs)
    elif t == "platData":
        if fmt != 1:
            raise LayoutError("platData format")
        nP = r.i32("nPlats", "count"); freq = r.i32("frequency"); st = r.f32(1, "startTime")[0]
        nF = r.i32("nFrames", "count")
        if nP < 0 or nF < 0:
            raise LayoutError("negative count")
        cmap = [r.u16(f"map{k}") for k in range(nP)]
        spec = {"t": t, "format": fmt, "frequency": freq, "startTime": st, "nFrames": nF,
                "map": cmap, "plats": []}
        for k in range(nP):
            frames, segs = _dec_rle(r, nF, 6, f"plat{k}")
            spec["plats"].append({"frames": frames})
            aux["segs"].append(segs)
    elif t == "platCal":
        if fmt != 2:
            raise LayoutError("platCal format")
        nP = r.i32("nPlats", "count"); r.skip(4, "pad", "header.pad")
        if nP < 0:
            raise LayoutError("negative count")
        cmap = [r.i16(f"map{k}") for k in range(nP)]
        spec = {"t": t, "format": fmt, "map": cmap, "plats": []}
        for k in range(nP):
            label = r.string(256, f"plat{k}.label")
            size = r.f32(2, f"plat{k}.size"); pos = r.f32(12, f"plat{k}.position")
            r.skip(256, "reserved", f"plat{k}.pad256")
            spec["plats"].append({"label": label, "size": size, "position": pos})
    elif t == "data2D":
        if fmt != 2:
            raise LayoutError("data2D format")
        nC = r.i32("nCams", "count"); nF = r.i32("nFrames", "count"); freq = r.i32("frequency")
        st = r.f32(1, "startTime")[0]; flags = r.u32("flags")
        if nC < 0 or nF < 0:
            raise LayoutError("negative count")
        cmap = [r.u16(f"map{k}") for k in range(nC)]
        counts = [[r.u16(f"n[{cam}][{fr}]", "count") for fr in range(nF)] for cam in range(nC)]
        cells = []
        for fr in range(nF):
            row = []
            for cam in range(nC):
                n = counts[cam][fr]
                if n == 0:
                    row.append(None)
                else:
                    v = r.f32(2 * n, f"cell[{fr}][{cam}]")
                    row.append([[v[2 * i], v[2 * i + 1]] for i in range(n)])
            cells.append(row)
        spec = {"t": t, "format": fmt, "nCams": nC, "nFrames": nF, "frequency": freq,
                "startTime": st, "flags": flags, "map": cmap, "cells": cells}
    elif t == "calib":
        if fmt not in (1, 2):
            raise LayoutError("calib format")
        nC = r.i32("nCams", "count"); model = r.i32("model")
        vol = r.f32(3, "volume"); rot = r.f32(9, "rot"); tr_ = r.f32(3, "trans")
        if nC < 0:
            raise LayoutError("negative count")
        cmap = [r.i16(f"map{k}") for k in range(nC)]
        cams = []
        for k in range(nC):
            cam = {"rot": r.f64(9, f"cam{k}.rot"), "trans": r.f64(3, f"cam{k}.trans"),
                   "focus": r.f64(2, f"cam{k}.focus"), "center": r.f64(2, f"cam{k}.center")}
            if fmt == 1:
                cam["radial"] = r.f64(2, f"cam{k}.radial")
                cam["decentering"] = r.f64(2, f"cam{k}.decentering")
                cam["thinprism"] = r.f64(2, f"cam{k}.thinprism")
            else:
                cam["xcoef"] = r.f64(70, f"cam{k}.xcoef")
                cam["ycoef"] = r.f64(70, f"cam{k}.ycoef")
            cam["vp"] = r.i32s(4, f"cam{k}.vp")
            cams.append(cam)
        spec = {"t": t, "format": fmt, "model": model, "volume": vol, "rot": rot, "trans": tr_,
                "map": cmap, "cams": cams}
    elif t == "optical":
        if fmt != 1:
            raise LayoutError("optical format")
        nCh = r.i32("nChannels", "count"); r.skip(4, "reserved", "header.reserved")
        if nCh < 0:
            raise LayoutError("negative count")
        chans = []
        for k in range(nCh):
            idx = r.i32(f"ch{k}.index"); r.skip(4, "reserved", f"ch{k}.reserved")
            lens = r.string(32, f"ch{k}.lens"); typ = r.string(32, f"ch{k}.type")
            name = r.string(32, f"ch{k}.name")
            vp = r.i32s(4, f"ch{k}.vp")
            chans.append({"index": idx, "lens": lens, "type": typ, "name": name, "vp": vp})
        spec = {"t": t, "format": fmt, "channels": chans}
    elif t == "events":
        if fmt != 1:
            raise LayoutError("events format")
        nE = r.i32("nEvents", "count"); st = r.f32(1, "startTime")[0]
        if nE < 0:
            raise LayoutError("negative count")
        evs = []
        for k in range(nE):
            label = r.string(256, f"ev{k}.label")
            typ = r.u32(f"ev{k}.type"); n = r.i32(f"ev{k}.nItems", "count")
            if n < 0:
                raise LayoutError("negative count")
            evs.append({"label": label, "type": typ, "values": r.f32(n, f"ev{k}.values")})
        spec = {"t": t, "format": fmt, "startTime": st, "events": evs}
    else:
        raise LayoutError(f"unknown block kind {t}")
    if exact and r.p != len(data):
        raise LayoutError(f"{t}: {len(data) - r.p} bytes left over after decoding ({r.p} of {len(data)} consumed)")
    aux["consumed"] = r.p
    return spec, r.spans, aux


def check_spans_cover(spans, n) -> bool:
    p = 0
    for s, e, _k, _n in spans:
        if s != p or e <= s:
            return False
        p = e
    return p == n


def scramble(data: bytes, spans, rng, mode="random") -> bytes:
    """overwrite every don't-care byte (reserved / pad / after-terminator) with arbitrary values"""
    b = bytearray(data)
    for s, e, kind, _name in spans:
        if kind in DONTCARE:
            if mode == "ff":
                b[s:e] = b"\xff" * (e - s)
            elif mode == "smallint":   # looks like a meaningful little-endian count / index
                word = struct.pack("<i", rng.choice([1, 2, 3, 5, 7, 10, 31, 100]))
                b[s:e] = (word * ((e - s) // 4 + 1))[: e - s]
            elif mode == "floats":   # looks like plausible little-endian float32 measurements (sizes, coordinates)
                if rng.random() < 0.5:
                    # one byte repeated: the same modest float32 at every alignment (0x3f3f3f3f = 0.747, 0x40404040 = 3.0,
                    # 0x3e3e3e3e = 0.186, 0x41414141 = 12.1, 0x42424242 = 48.6)
                    b[s:e] = bytes([rng.choice([0x3F, 0x3F, 0x40, 0x3E, 0x41, 0x42])]) * (e - s)
                else:
                    vals = b"".join(struct.pack("<f", rng.choice([1.0, -1.0]) * rng.uniform(0.05, 900.0)) for _ in range((e - s) // 4 + 1))
                    b[s:e] = vals[: e - s]
            elif mode == "text":  # looks like a longer, printable string continuing after the NUL
                b[s:e] = bytes(rng.choice(b"ABCDEFGHIJKLMNOPQRSTUVWXYZabcdefghijklmnopqrstuvwxyz0123456789 ")
                               for _ in range(e - s))
            else:
                b[s:e] = bytes(rng.getrandbits(8) for _ in range(e - s))
    return bytes(b)


def dontcare_positions(spans):
    out = []
    for s, e, kind, _ in spans:
        if kind in DONTCARE:
            out.extend(range(s, e))
    return out


# ------------------------------------------------------------------------------------------------
# spec comparison (bit-exact for floats: -0.0 != 0.0)
# ------------------------------------------------------------------------------------------------
def spec_diff(a, b, path="$"):
    """first difference between two specs, or None"""
    if isinstance(a, float) or isinstance(b, float):
        if isinstance(a, (int, float)) and isinstance(b, (int, float)) and not isinstance(a, bool) \
                and not isinstance(b, bool):
            if struct.pack("<d", float(a)) != struct.pack("<d", float(b)):
                return f"{path}: {a!r} != {b!r}"
            return None
        return f"{path}: {a!r} != {b!r}"
    if type(a) is not type(b):
        if isinstance(a, (list, tuple)) and isinstance(b, (list, tuple)):
            pass
        else:
            return f"{path}: {type(a).__name__} {str(a)[:80]} != {type(b).__name__} {str(b)[:80]}"
    if isinstance(a, dict):
        if set(a) != set(b):
            return f"{path}: keys {sorted(a)} != {sorted(b)}"
        for k in a:
            d = spec_diff(a[k], b[k], f"{path}.{k}")
            if d:
                return d
        return None
    if isinstance(a, (list, tuple)):
        if len(a) != len(b):
            return f"{path}: length {len(a)} != {len(b)}"
        for i, (x, y) in enumerate(zip(a, b)):
            d = spec_diff(x, y, f"{path}[{i}]")
            if d:
                return d
        return None
    if a != b:
        return f"{path}: {a!r} != {b!r}"
    return None


# ------------------------------------------------------------------------------------------------
# container
# ------------------------------------------------------------------------------------------------
def encode_entry(e) -> bytes:
    w = W()
    w.u32(e["type"]); w.u32(e["format"]); w.i32(e["offset"]); w.i32(e["size"])
    w.i32(e["cdate"]); w.i32(e["mdate"]); w.i32(e["adate"])
    w.zeros(4)
    w.string(256, e["comment"])
    return w.bytes()


def decode_entry(data: bytes):
    r = R(data)
    e = {"type": r.u32("type"), "format": r.u32("format"), "offset": r.i32("offset"),
         "size": r.i32("size"), "cdate": r.i32("cdate"), "mdate": r.i32("mdate"),
         "adate": r.i32("adate")}
    r.skip(4, "pad", "entry.pad")
    try:
        e["comment"] = r.string(256, "comment")
    except UnicodeDecodeError:
        e["comment"] = None
    return e, r.spans


def encode_header(version, n, cdate, mdate, adate) -> bytes:
    w = W()
    w.raw(SIGNATURE); w.u32(version); w.i32(n); w.zeros(8)
    w.i32(cdate); w.i32(mdate); w.i32(adate); w.zeros(20)
    return w.bytes()


def header_spans():
    return [(0, 16, "value", "signature"), (16, 20, "value", "version"), (20, 24, "count", "nEntries"),
            (24, 32, "reserved", "reserved0"), (32, 36, "value", "cdate"), (36, 40, "value", "mdate"),
            (40, 44, "value", "adate"), (44, 64, "reserved", "reserved1")]


def encode_container(n, blocks, version=1, hdates=(0, 0, 0), free_dates=(0, 0, 0),
                     free_comment="") -> bytes:
    """compact container: ``blocks`` = [{type, format, payload, cdate, mdate, adate, comment}] back
    to back after the table, remaining slots unused and pointing at the end of data."""
    if len(blocks) > n:
        raise LayoutError("more blocks than slots")
    off = HEADER + ENTRY * n
    out = [encode_header(version, n, *hdates)]
    ents = []
    for b in blocks:
        ents.append({"type": b["type"], "format": b["format"], "offset": off, "size": len(b["payload"]),
                     "cdate": b["cdate"], "mdate": b["mdate"], "adate": b["adate"],
                     "comment": b["comment"]})
        off += len(b["payload"])
    for _ in range(n - len(blocks)):
        ents.append({"type": 0, "format": 0, "offset": off, "size": 0, "cdate": free_dates[0],
                     "mdate": free_dates[1], "adate": free_dates[2], "comment": free_comment})
    out.extend(encode_entry(e) for e in ents)
    out.extend(b["payload"] for b in blocks)
    return b"".join(out)


def parse_container(data: bytes):
    """tolerant parse: describes what is there so that oracles can say what is wrong"""
    c = {"len": len(data), "sig_ok": data[:16] == SIGNATURE, "entries": [], "problems": []}
    if len(data) < HEADER:
        c["problems"].append("shorter than the 64-byte header")
        return c
    c["version"], c["n"] = struct.unpack("<Ii", data[16:24])
    c["reserved0"] = data[24:32]
    c["cdate"], c["mdate"], c["adate"] = struct.unpack("<iii", data[32:44])
    c["reserved1"] = data[44:64]
    n = c["n"]
    if n < 0 or HEADER + ENTRY * n > len(data):
        c["problems"].append(f"table of {n} slots does not fit in {len(data)} bytes")
        return c
    for i in range(n):
        raw = data[HEADER + ENTRY * i: HEADER + ENTRY * (i + 1)]
        e, _ = decode_entry(raw)
        e["raw"] = raw
        c["entries"].append(e)
    return c


def payload_of(data: bytes, e) -> bytes:
    return data[e["offset"]: e["offset"] + e["size"]]


def wellformed(c, n0=None, version0=None):
    """C03's WF predicate on a parsed container. Returns list of problems (empty = well-formed)."""
    p = list(c["problems"])
    if not c["sig_ok"]:
        p.append("signature changed")
    if "n" not in c or c["entries"] == [] and c.get("n", 0) != 0:
        return p or ["unparseable"]
    n = c["n"]
    if n0 is not None and n != n0:
        p.append(f"slot count {n} != initial {n0}")
    if version0 is not None and c["version"] != version0:
        p.append(f"version {c['version']} != initial {version0}")
    tab_end = HEADER + ENTRY * n
    live = []
    for i, e in enumerate(c["entries"]):
        if e["type"] == 0:
            if e["size"] != 0:
                p.append(f"unused slot {i} has size {e['size']}")
            continue
        if e["type"] not in KNOWN_TYPE_CODES:
            p.append(f"slot {i} has unknown type code {e['type']}")
        if e["size"] <= 0:
            p.append(f"live slot {i} (type {e['type']}) has size {e['size']}")
        if e["offset"] < tab_end:
            p.append(f"live slot {i} (type {e['type']}) offset {e['offset']} lies inside header/table (< {tab_end})")
        if e["offset"] + e["size"] > c["len"]:
            p.append(f"live slot {i} (type {e['type']}) range {e['offset']}+{e['size']} exceeds file length {c['len']}")
        live.append((e["offset"], e["offset"] + e["size"], i, e["type"]))
    live.sort()
    for (s1, e1, i1, t1), (s2, e2, i2, t2) in zip(live, live[1:]):
        if s2 < e1:
            p.append(f"live ranges overlap: slot {i1} (type {t1}) [{s1},{e1}) and slot {i2} (type {t2}) [{s2},{e2})")
    return p


def compact(c):
    """C09's COMPACT predicate. Returns list of problems."""
    p = []
    n = c["n"]
    pos = HEADER + ENTRY * n
    seen_free = False
    for i, e in enumerate(c["entries"]):
        if e["type"] == 0:
            seen_free = True
            continue
        if seen_free:
            p.append(f"live slot {i} (type {e['type']}) comes after an unused slot")
        if e["offset"] != pos:
            p.append(f"live slot {i} (type {e['type']}) at offset {e['offset']}, expected {pos} (back to back)")
        pos = e["offset"] + e["size"] if e["offset"] != pos else pos + e["size"]
    end = HEADER + ENTRY * n + sum(e["size"] for e in c["entries"] if e["type"] != 0)
    for i, e in enumerate(c["entries"]):
        if e["type"] == 0 and e["offset"] != end:
            p.append(f"unused slot {i} carries offset {e['offset']}, end of data is {end}")
    if c["len"] != end:
        p.append(f"file length {c['len']} != header+table+sum(live sizes) = {end}")
    return p
