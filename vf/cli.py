from __future__ import annotations

import argparse
import os
import sys


def main(argv=None) -> int:
    argv = list(sys.argv[1:] if argv is None else argv)
    if argv and argv[0] == "--shard":
        from . import runner
        return runner.child_main(argv[1], argv[2], argv[3])
    if argv and argv[0] == "setup":
        from . import setup_check
        return setup_check.main()
    if argv and argv[0] == "replay":
        from . import runner
        return runner.run_replay(argv[1])
    ap = argparse.ArgumentParser(prog="check")
    ap.add_argument("prop")
    ap.add_argument("--tier", default=os.environ.get("VERIF_TIER", "quick"),
                    choices=["quick", "thorough"])
    ap.add_argument("--seed", type=int, default=int(os.environ.get("VERIF_SEED", "0") or 0))
    ap.add_argument("--replay", default=None)
    a = ap.parse_args(argv)
    from . import runner
    if a.replay:
        return runner.run_replay(a.replay)
    return runner.run_check(a.prop.upper(), a.tier, a.seed)


if __name__ == "__main__":
    sys.exit(main())
