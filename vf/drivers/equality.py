"""C14 - equality tells equal content from different content (blocks and files)."""
from __future__ import annotations

import copy
import math
import os
import random
import struct
import warnings

import numpy as np

from .. import env, gen, refcodec as rc

env.bootstrap()
from .. import lib  # noqa: E402
from . import container as C  # noqa: E402

from basictdf import Tdf  # noqa: E402

warnings.filterwarnings("ignore")


def far(x):
    """a float32 value clearly different from x (beyond any sensible tolerance), finite"""
    for cand in (2 * x + 1, x + 1000.0, -x - 7.0, 3.0):
        c = rc.f32r(cand) if abs(cand) < 3e38 else 3.0
        if math.isfinite(c) and abs(c - x) > 1e-3 + 1e-2 * max(abs(x), abs(c)):
            return c
    return 12345.0 if abs(x - 12345.0) > 200 else -999.0


def farf64(x):
    for cand in (2 * x + 1, x + 1000.0, -x - 7.0, 3.0):
        if math.isfinite(cand) and abs(cand - x) > 1e-3 + 1e-2 * max(abs(x), abs(cand)):
            return cand
    return 12345.0


def mutations(rng, spec):
    """yield (name, mutated spec): exactly one thing changed"""
    t = spec["t"]
    key = lib.ITEMS_KEY.get(t)

    def cp():
        return copy.deepcopy(spec)
    items = spec[key] if key else []
    # ---- format (part of a block's content wherever two formats can hold the same items) ------------
    if t == "data3D" and spec["format"] in (1, 2):
        m = cp()
        if spec["format"] == 1:
            m["format"] = 2; m.pop("links", None)
        else:
            m["format"] = 1; m["links"] = []
        yield "format-changed", m
    if t == "calib" and not items:
        m = cp(); m["format"] = 3 - spec["format"]; yield "format-changed", m
    # ---- item count ----------------------------------------------------------------------
    if key:
        if items:
            m = cp(); m[key].pop(); _fix_map(m, -1); yield "item-removed-last", m
            if len(items) > 1:
                m = cp(); m[key].pop(0); _fix_map(m, 0); yield "item-removed-first", m
        m = cp()
        extra = gen.gen_spec(rng, t, fmt=spec["format"])
        tries = 0
        while not extra[key] and tries < 30:
            extra = gen.gen_spec(rng, t, fmt=spec["format"]); tries += 1
        if extra[key]:
            it = copy.deepcopy(extra[key][0])
            if "frames" in it:
                n = spec.get("nFrames", spec.get("nSamples"))
                w = {"data3D": 3, "emg": 1, "force3D": 9, "platData": 6}[t]
                it["frames"] = gen.rframes(rng, gen.rmask(rng, n), w)
            m[key].append(it)
            if "map" in m:
                m["map"] = m["map"] + [max(m["map"] + [0]) + 1]
            yield "item-appended", m
    if key and len(items) >= 2:
        i, j = rng.sample(range(len(items)), 2)
        if rc.spec_diff(items[i], items[j]):
            m = cp(); m[key][i] = copy.deepcopy(items[j]); yield "item-replaced-by-copy-of-sibling", m
            m = cp(); m[key][i], m[key][j] = copy.deepcopy(items[j]), copy.deepcopy(items[i]); yield "items-swapped", m
    # ---- labels ----------------------------------------------------------------------------
    if items and ("label" in items[0] or t == "optical"):
        i = rng.randrange(len(items))
        for fld in (["lens", "type", "name"] if t == "optical" else ["label"]):
            old_ = items[i][fld]
            new_ = old_ + "x" if len(old_) < 30 else old_[:-1] + ("y" if old_[-1] != "y" else "z")
            m = cp(); m[key][i][fld] = new_
            yield f"{fld}-changed", m
        m = cp(); fld = "name" if t == "optical" else "label"
        sw = items[i][fld].swapcase()
        if sw != items[i][fld] and len(sw) == len(items[i][fld]) and _cp1252(sw):
            m[key][i][fld] = sw; yield f"{fld}-case-changed", m
    # ---- channel numbers ---------------------------------------------------------------------
    if spec.get("map"):
        i = rng.randrange(len(spec["map"]))
        m = cp(); m["map"][i] = max(spec["map"]) + 1 + rng.randint(0, 5); yield "channel-changed", m
    if t == "optical" and items:
        i = rng.randrange(len(items))
        m = cp(); m[key][i]["index"] = items[i]["index"] + 1 if items[i]["index"] < 2 ** 31 - 1 else 0
        yield "logical-index-changed", m
    # ---- header scalars ------------------------------------------------------------------------
    for fld in ("frequency",):
        if fld in spec:
            m = cp(); m[fld] = spec[fld] + 1 if spec[fld] < 2 ** 31 - 1 else 5; yield f"{fld}-changed", m
    if "startTime" in spec:
        m = cp(); m["startTime"] = far(spec["startTime"]); yield "startTime-changed", m
    for fld in ("volume", "rot", "trans"):
        if fld in spec:
            i = rng.randrange(len(spec[fld]))
            m = cp(); m[fld][i] = far(spec[fld][i]); yield f"{fld}-changed", m
    for fld in ("flag", "flags"):
        if fld in spec:
            m = cp(); m[fld] = 1 - spec[fld]; yield f"{fld}-changed", m
    if t == "calib":
        m = cp(); m["model"] = (spec["model"] + 1) % 4; yield "model-changed", m
    # ---- samples -------------------------------------------------------------------------------
    if items and "frames" in items[0]:
        i = rng.randrange(len(items))
        fr = items[i]["frames"]
        present = [k for k, f in enumerate(fr) if f is not None]
        gaps = [k for k, f in enumerate(fr) if f is None]
        if present:
            k = rng.choice(present)
            m = cp()
            if isinstance(fr[k], list):
                j = rng.randrange(len(fr[k])); m[key][i]["frames"][k][j] = far(fr[k][j])
            else:
                m[key][i]["frames"][k] = far(fr[k])
            yield "sample-changed", m
            if len(present) > 0 and (gaps or len(fr) > 1):
                m = cp(); m[key][i]["frames"][k] = None; yield "present-frame-made-gap", m
        if gaps:
            k = rng.choice(gaps)
            w = {"data3D": 3, "emg": 1, "force3D": 9, "platData": 6}[t]
            m = cp(); m[key][i]["frames"][k] = gen.rframes(rng, [True], w)[0]; yield "gap-frame-made-present", m
            # a missing frame is not a frame at the origin: a gap filled with exact zeros is different content
            m = cp(); m[key][i]["frames"][k] = (0.0 if w == 1 else [0.0] * w); yield "gap-frame-made-zero", m
        zeros = [k for k, f in enumerate(fr) if f is not None and not any((f if isinstance(f, list) else [f]))]
        if zeros:
            m = cp(); m[key][i]["frames"][rng.choice(zeros)] = None; yield "zero-frame-made-gap", m
    if t == "platCal" and items:
        i = rng.randrange(len(items))
        m = cp(); m[key][i]["size"][0] = far(items[i]["size"][0]); yield "sample-changed(size)", m
        m = cp(); j = rng.randrange(12); m[key][i]["position"][j] = far(items[i]["position"][j]); yield "sample-changed(position)", m
    if t == "calib" and items:
        i = rng.randrange(len(items))
        for fld in [f for f in items[i] if f != "vp"]:
            j = rng.randrange(len(items[i][fld]))
            m = cp(); m[key][i][fld][j] = farf64(items[i][fld][j]); yield f"camera-{fld}-changed", m
        m = cp(); m[key][i]["vp"][rng.randrange(4)] ^= 1; yield "camera-viewport-changed", m
    if t == "optical" and items:
        i = rng.randrange(len(items))
        m = cp(); m[key][i]["vp"][rng.randrange(4)] ^= 1; yield "viewport-changed", m
    if t == "events" and items:
        i = rng.randrange(len(items))
        ev = items[i]
        if ev["values"]:
            j = rng.randrange(len(ev["values"]))
            m = cp(); m[key][i]["values"][j] = far(ev["values"][j]); yield "sample-changed", m
        if ev["type"] == 1:
            m = cp(); m[key][i]["values"] = ev["values"] + [1.5]; yield "event-value-appended", m
        if len(ev["values"]) <= 1:
            m = cp(); m[key][i]["type"] = 1 - ev["type"]; yield "event-kind-changed", m
    if t == "data2D":
        cells = [(f, c) for f in range(spec["nFrames"]) for c in range(spec["nCams"])]
        full = [(f, c) for f, c in cells if spec["cells"][f][c] is not None]
        empty = [(f, c) for f, c in cells if spec["cells"][f][c] is None]
        if full:
            f, c = rng.choice(full)
            m = cp(); m["cells"][f][c][0][0] = far(spec["cells"][f][c][0][0]); yield "sample-changed", m
            m = cp(); m["cells"][f][c] = None; yield "cell-emptied", m
            m = cp(); m["cells"][f][c] = spec["cells"][f][c] + [[1.0, 2.0]]; yield "point-appended", m
        if empty:
            f, c = rng.choice(empty)
            m = cp(); m["cells"][f][c] = [[0.5, 0.25]]; yield "cell-filled", m


def _cp1252(s):
    try:
        s.encode("cp1252")
        return True
    except UnicodeEncodeError:
        return False


def _fix_map(m, idx):
    if "map" in m and m["map"]:
        m["map"].pop(idx)


def check_pair(rec, relation, a, b, want_equal, kind, name, case):
    rec.count(f"oracle:C14.{relation}")
    rec.count(f"c14:{kind}:{relation}")
    try:
        r = a == b
        got = bool(r)
    except Exception as e:
        rec.violation("C14", f"{kind}:{relation}:comparison-raises", f"{name}: {type(e).__name__}: {e}", case)
        return
    if got != want_equal:
        detail = name if want_equal and not name.startswith("edited") else name.split("(")[0]
        rec.violation("C14", f"{kind}:{relation}:{detail}:{'compares-unequal' if want_equal else 'compares-equal'}",
                      f"{name}: a == b is {got}, content is {'equal' if want_equal else 'different'}", case)


def _norm0(x):
    """-0.0 -> +0.0 throughout: the two zeros are the same number, a change of a zero's sign is not a change of content"""
    if isinstance(x, float):
        return 0.0 if x == 0 else x
    if isinstance(x, dict):
        return {k: _norm0(v) for k, v in x.items()}
    if isinstance(x, (list, tuple)):
        return [_norm0(v) for v in x]
    return x


def same_numbers(a, b):
    return rc.spec_diff(_norm0(a), _norm0(b)) is None


def classify_equal_case(spec):
    kind = spec["t"]
    tags = []
    if kind in lib.RLE_KINDS and any(f is None for tr in lib.tracks_frames(spec) for f in tr):
        tags.append("with-gaps")
    if kind == "calib":
        tags.append("fmt%d" % spec["format"])
    if lib.nitems(spec) == 0:
        tags.append("empty")
    return "+".join(tags) or "plain"


def shard_blocks(desc, rec):
    rng = random.Random(desc["seed"] * 67 + desc.get("shard", 0))
    for i in range(desc["n"]):
        kind = gen.KINDS[i % 9]
        spec = C.small_block_spec(rng, kind) if rng.random() < 0.8 else gen.gen_spec(rng, kind)
        variant = gen.gen_variant(rng, kind)
        case = {"driver": "equality", "spec": spec, "variant": variant}
        rec.case({"s": spec}, lib.nitems(spec) > 0,
                 sample={"kind": kind, "tags": classify_equal_case(spec)} if i % 101 == 0 else None)
        a = lib.build(spec, variant)
        tag = classify_equal_case(spec)
        check_pair(rec, "self", a, a, True, kind, f"reflexive({tag})", case)
        x = lib.enc(a)
        b, _ = lib.dec(kind, spec["format"], x)
        check_pair(rec, "roundtrip", a, b, True, kind, f"decode-of-own-encoding({tag})", case)
        check_pair(rec, "roundtrip", b, a, True, kind, f"decode-of-own-encoding-reversed({tag})", case)
        b2, _ = lib.dec(kind, spec["format"], x)
        check_pair(rec, "roundtrip", b, b2, True, kind, f"two-decodes({tag})", case)
        # equality after an in-place edit: a block that has been compared once and is then edited through its
        # public attributes must compare unequal to its former self's decode, and equal to its own new decode
        if i % 2 == 0:
            from . import edits
            a2 = lib.build(spec, variant)
            bool(a2 == b)
            r = None
            try:
                r = edits.inplace_edit(rng, a2, spec)
            except Exception:
                rec.count("c14:edit-refused")
            if r is not None:
                ename, spec2 = r
                # only edits whose effect is unambiguous under any float tolerance are judged
                if not same_numbers(spec, spec2) and ename in ("open-gap", "fill-gap", "label", "optical-name", "frequency",
                                                           "append-item", "cell-clear"):
                    ecase = {"driver": "equality", "spec": spec, "variant": variant, "edit": ename}
                    check_pair(rec, "edited-in-place", a2, b, False, kind, f"edited({ename})", ecase)
                    check_pair(rec, "edited-in-place", b, a2, False, kind, f"edited({ename})(reversed)", ecase)
                    try:
                        b3, _ = lib.dec(kind, spec2["format"], lib.enc(a2))
                        check_pair(rec, "edited-in-place", a2, b3, True, kind, f"edited-then-roundtrip({ename})", ecase)
                    except Exception:
                        rec.count("c14:edited-roundtrip-failed")
        if kind in ("data3D", "emg", "force3D", "platData") and lib.nitems(spec) > 0 and (i // 9) % 2 == 0:
            shared_buffer_pairs(rec, rng, kind, spec, case)
        for name, ms in mutations(rng, spec):
            if same_numbers(spec, ms):
                rec.count("c14:mutant-differs-only-in-the-sign-of-zeros(not judged)")
                continue
            try:
                mb = lib.build(ms, variant)
            except Exception as e:
                rec.count("c14:mutant-not-constructible")
                continue
            mcase = {"driver": "equality", "spec": spec, "variant": variant, "mutation": name}
            check_pair(rec, "mutated", a, mb, False, kind, name, mcase)
            check_pair(rec, "mutated", mb, a, False, kind, name + "(reversed)", mcase)
            # and through a round trip of both sides
            try:
                mb2, _ = lib.dec(kind, ms["format"], lib.enc(mb))
                check_pair(rec, "mutated", b, mb2, False, kind, name + "(decoded)", mcase)
            except Exception:
                rec.count("c14:mutant-roundtrip-failed")


def shared_buffer_pairs(rec, rng, kind, spec, case):
    """two blocks whose sample arrays are *views of one buffer* (columns of one recording, overlapping windows of
    one long signal): different views hold different content, the same view the same"""
    key = lib.ITEMS_KEY[kind]
    n = spec.get("nFrames", spec.get("nSamples"))
    w = {"data3D": 3, "emg": 1, "force3D": 9, "platData": 6}[kind]
    if n < 1:
        return
    # one buffer holding two distinct, fully present recordings: rows 0..n-1 and 1..n (overlapping windows)
    buf = np.empty((n + 1, w), dtype=np.float32)
    buf[:] = np.arange(1, (n + 1) * w + 1, dtype=np.float32).reshape(n + 1, w) * 1.5
    wa, wb = buf[:-1], buf[1:]

    def block_with(view):
        s1 = {**spec, key: [dict(it) for it in spec[key]]}
        b = lib.build(s1, {})
        it = (list(b.tracks) if kind in ("data3D", "force3D") else list(b) if kind == "emg" else list(b.platforms))[0]
        if kind == "data3D":
            it.data = view
        elif kind == "emg":
            it.data = view[:, 0]
        elif kind == "force3D":
            it.application_point, it.force, it.torque = view[:, 0:3], view[:, 3:6], view[:, 6:9]
        else:
            it.application_point, it.force, it.torque = view[:, 0:2], view[:, 2:5], view[:, 5]
        return b
    try:
        a1, a2, b1 = block_with(wa), block_with(wa), block_with(wb)
    except Exception as e:
        rec.count(f"c14:shared-buffer-not-constructible:{type(e).__name__}")
        return
    c2 = dict(case, shared_buffer=True)
    check_pair(rec, "shared-buffer", a1, a2, True, kind, "same-view-of-one-buffer", c2)
    check_pair(rec, "shared-buffer", a1, b1, False, kind, "overlapping-views-of-one-buffer", c2)
    check_pair(rec, "shared-buffer", b1, a1, False, kind, "overlapping-views-of-one-buffer(reversed)", c2)


def shard_files(desc, rec):
    rng = random.Random(desc["seed"] * 71 + 9)
    d = env.scratch_dir()
    for i in range(desc["n"]):
        kinds = rng.sample(gen.KINDS, rng.randint(0, 4))
        specs = [C.small_block_spec(rng, k) for k in kinds]
        pa, pb = str(d / f"ea_{os.getpid()}_{i}.tdf"), str(d / f"eb_{os.getpid()}_{i}.tdf")
        case = {"driver": "equality-files", "kinds": kinds, "seed": desc["seed"], "index": i}
        rec.case({"files": [rc_hash(s) for s in specs], "i": i}, bool(kinds))

        def mk(path, ss):
            if os.path.exists(path):
                os.unlink(path)
            with Tdf.new(path).allow_write() as t:
                for s in ss:
                    t.add_block(lib.build(s, {}), "eq")
        mk(pa, specs)
        mk(pb, specs)
        rel = "files-equal"

        def cmp(want, name):
            rec.count(f"oracle:C14.{'files-equal' if want else 'files-differ'}")
            try:
                with Tdf(pa) as ta, Tdf(pb) as tb:
                    got = bool(ta == tb)
            except Exception as e:
                rec.violation("C14", f"files:{name}:comparison-raises", f"{type(e).__name__}: {e}", case)
                return
            if got != want:
                rec.violation("C14", f"files:{name}:{'compare-unequal' if want else 'compare-equal'}",
                              f"kinds {kinds}: Tdf == Tdf is {got}", dict(case, relation=name))
        cmp(True, "same-blocks")
        if specs:
            j = rng.randrange(len(specs))
            muts = [(n_, m_) for n_, m_ in mutations(rng, specs[j]) if not same_numbers(specs[j], m_)]
            if muts:
                name, ms = rng.choice(muts)
                try:
                    lib.build(ms, {})
                    mk(pb, specs[:j] + [ms] + specs[j + 1:])
                    cmp(False, "one-block-mutated")
                except Exception:
                    pass
            mk(pb, specs[:j] + specs[j + 1:])
            cmp(False, "one-block-removed")
        absent = [k for k in gen.KINDS if k not in kinds]
        if absent:
            mk(pb, specs + [C.small_block_spec(rng, rng.choice(absent), 1)])
            cmp(False, "one-block-added")
        # slot count and version are part of file equality: same blocks in a table of another length / version
        if i % 3 == 0:
            blocks = [{"type": rc.TYPE_CODES[s_["t"]], "format": s_["format"], "payload": rc.encode_block(s_),
                       "cdate": 10 ** 9, "mdate": 10 ** 9, "adate": 10 ** 9, "comment": "eq"} for s_ in specs]
            n1 = max(len(blocks), 1) + rng.randint(0, 3)
            variants = [("other-slot-count", n1 + rng.randint(1, 3), 1, False), ("other-version", n1, 2, False),
                        ("same-table", n1, 1, True)]
            open(pa, "wb").write(rc.encode_container(n1, blocks, 1))
            for name, n2, ver, want in variants:
                open(pb, "wb").write(rc.encode_container(n2, blocks, ver, hdates=(5, 6, 7), free_comment="other"))
                cmp(want, name)
        # same content, different don't-care bytes (reserved words, padding, bytes after string terminators)
        if i % 2 == 1:
            sd = rng.getrandbits(32)
            nn = rng.choice([2, 5, 14])
            nl = rng.randint(1, min(nn, 5))
            clean_, _m1 = C.make_initial(random.Random(sd), nn, nl, 0.0, False)
            dirty_, _m2 = C.make_initial(random.Random(sd), nn, nl, 0.0, True)
            open(pa, "wb").write(clean_)
            open(pb, "wb").write(dirty_)
            rec.count("c14:files:dontcare-bytes-differing", sum(1 for x_, y_ in zip(clean_, dirty_) if x_ != y_))
            cmp(True, "same-content-other-dontcare-bytes")
        # a table with an unused slot between live blocks: blocks behind the hole count too
        if len(specs) >= 2 and i % 2 == 0:
            def hole_file(path, ss, hole_at):
                blocks = [{"type": rc.TYPE_CODES[s_["t"]], "format": s_["format"], "payload": rc.encode_block(s_),
                           "cdate": 10 ** 9, "mdate": 10 ** 9, "adate": 10 ** 9, "comment": "eq"} for s_ in ss]
                extra = {"type": 13, "format": 0, "payload": b"x" * 10, "cdate": 1, "mdate": 1, "adate": 1, "comment": ""}
                blocks.insert(hole_at, extra)
                data = bytearray(rc.encode_container(len(blocks) + 2, blocks, 1))
                o = rc.HEADER + rc.ENTRY * hole_at
                e, _ = rc.decode_entry(bytes(data[o:o + rc.ENTRY]))
                data[o:o + rc.ENTRY] = rc.encode_entry(dict(e, type=0, format=0, size=0, comment=""))
                open(path, "wb").write(bytes(data))
            hole_at = rng.randint(0, len(specs) - 1)
            hole_file(pa, specs, hole_at)
            hole_file(pb, specs, hole_at)
            cmp(True, "same-blocks-around-a-hole")
            j = rng.randrange(len(specs))
            muts = [(n_, m_) for n_, m_ in mutations(rng, specs[j]) if not same_numbers(specs[j], m_)]
            ok_m = None
            for n_, m_ in muts:
                try:
                    rc.encode_block(m_)
                    ok_m = m_
                    break
                except Exception:
                    continue
            if ok_m is not None:
                hole_file(pb, specs[:j] + [ok_m] + specs[j + 1:], hole_at)
                cmp(False, "one-block-mutated-behind-or-before-a-hole")
        for p in (pa, pb):
            if os.path.exists(p):
                os.unlink(p)


def rc_hash(s):
    from ..runner import jhash
    return jhash(s)


SHARDS = {"eq-blocks": shard_blocks, "eq-files": shard_files}


def run_shard(desc, rec):
    SHARDS[desc["kind"]](desc, rec)


def replay(case, rec):
    if case.get("driver") == "equality":
        rng = random.Random(1)
        spec, variant = case["spec"], case["variant"]
        kind = spec["t"]
        a = lib.build(spec, variant)
        tag = classify_equal_case(spec)
        check_pair(rec, "self", a, a, True, kind, f"reflexive({tag})", case)
        b, _ = lib.dec(kind, spec["format"], lib.enc(a))
        check_pair(rec, "roundtrip", a, b, True, kind, f"decode-of-own-encoding({tag})", case)
        for seed in range(5):
            for name, ms in mutations(random.Random(seed), spec):
                if case.get("mutation") and name != case["mutation"]:
                    continue
                try:
                    mb = lib.build(ms, variant)
                except Exception:
                    continue
                check_pair(rec, "mutated", a, mb, False, kind, name, case)
    else:
        shard_files({"seed": case.get("seed", 0), "n": case.get("index", 0) + 1}, rec)
