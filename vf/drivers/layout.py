"""Container-level layout checks: C06 (header / entry writers and readers vs the reference codec,
Tdf.new vs the canonical empty container) and C12 (don't-care bytes of header / entries / payloads
never influence what a Tdf reports)."""
from __future__ import annotations

import os
import random
import time
from datetime import datetime, timedelta, timezone
from io import BytesIO

from .. import env, gen, refcodec as rc

env.bootstrap()
from .. import lib  # noqa: E402
from . import container as C  # noqa: E402

from basictdf import Tdf  # noqa: E402
from basictdf.basictdf import TdfEntry  # noqa: E402
from basictdf.tdfBlock import BlockType  # noqa: E402


def shard_container_layout(desc, rec):
    rng = random.Random(desc["seed"] * 53 + 1)
    d = env.scratch_dir()
    for i in range(desc["n"]):
        # ---- table entry, both directions ---------------------------------------------------
        e = {"type": rng.randint(0, 16), "format": rng.choice([0, 1, 2, 3, rng.getrandbits(32)]),
             "offset": gen.ri32(rng, small=10 ** 7), "size": gen.ri32(rng, small=10 ** 7),
             "cdate": C.rdate(rng), "mdate": C.rdate(rng), "adate": C.rdate(rng), "comment": C.rcomment(rng)}
        case = {"driver": "layout", "what": "entry", "entry": e}
        rec.case(e, True, sample=e if i % 97 == 0 else None)
        def as_dt(ts):
            """the same instant given as a naive local time (fold set where needed), with sub-second part, or as an
            aware datetime in UTC / another fixed offset"""
            how = rng.choice(["naive", "naive", "naive-us", "utc", "offset"])
            if ts < 0 and how == "naive-us":
                how = "naive"    # which whole second an instant *between* two seconds before 1970 belongs to is not pinned down
            if how == "naive":
                return datetime.fromtimestamp(ts)
            if how == "naive-us":
                return datetime.fromtimestamp(ts).replace(microsecond=rng.randint(1, 999999))
            if how == "utc":
                return datetime.fromtimestamp(ts, timezone.utc)
            return datetime.fromtimestamp(ts, timezone(timedelta(minutes=rng.choice([-720, -210, 60, 330, 345, 840]))))
        ent = TdfEntry(BlockType(e["type"]), e["format"], e["offset"], e["size"],
                       as_dt(e["cdate"]), as_dt(e["mdate"]), as_dt(e["adate"]), e["comment"])
        buf = BytesIO()
        ent._write(buf)
        ref = rc.encode_entry(e)
        rec.count("oracle:C06.entry==reference")
        if buf.getvalue() != ref:
            pos = next((k for k in range(min(len(ref), len(buf.getvalue()))) if ref[k] != buf.getvalue()[k]), None)
            rec.violation("C06", "entry:encode-differs-from-layout",
                          f"TdfEntry._write differs from the reference at byte {pos} (len {len(buf.getvalue())})", case)
        _, spans = rc.decode_entry(ref)
        scr = rc.scramble(ref, spans, rng, rng.choice(["random", "ff", "text"]))
        got = TdfEntry._build(BytesIO(scr + b"\xee" * 8))
        g = {"type": got.type.value, "format": int(got.format), "offset": int(got.offset), "size": int(got.size),
             "cdate": int(got.creation_date.timestamp()), "mdate": int(got.last_modification_date.timestamp()),
             "adate": int(got.last_access_date.timestamp()), "comment": got.comment}
        rec.count("oracle:C06.entry-decode==reference")
        dff = rc.spec_diff(e, g)
        if dff:
            rec.violation("C06", "entry:decode-differs-from-layout", dff, case)
            rec.violation("C12", "entry:dontcare-bytes-change-content", dff, case)
        # ---- file header, read direction -----------------------------------------------------
        n = rng.choice([0, 1, 2, 3, 5, 14, 20])
        ver = rng.choice([1, 1, 2, 7, 2 ** 31 + 5])
        hd = (C.rdate(rng), C.rdate(rng), C.rdate(rng))
        data = bytearray(rc.encode_container(n, [], ver, hd, (C.rdate(rng),) * 3, ""))
        data[24:32] = bytes(rng.getrandbits(8) for _ in range(8))
        data[44:64] = bytes(rng.getrandbits(8) for _ in range(20))
        p = str(d / f"l_{os.getpid()}_{i}.tdf")
        open(p, "wb").write(bytes(data))
        rec.count("oracle:C06.header-decode==reference")
        try:
            with Tdf(p) as t:
                got = (int(t.version), int(t.nEntries), int(t.creation_date.timestamp()),
                       int(t.last_modification_date.timestamp()), int(t.last_access_date.timestamp()),
                       len(t.entries))
            want = (ver, n, hd[0], hd[1], hd[2], n)
            if got != want:
                rec.violation("C06", "header:decode-differs-from-layout", f"{got} != {want}",
                              {"driver": "layout", "what": "header", "n": n, "version": ver, "dates": hd})
        except Exception as ex:
            rec.violation("C06", "header:conformant-header-rejected", f"{type(ex).__name__}: {ex}",
                          {"driver": "layout", "what": "header", "n": n, "version": ver, "dates": hd})
        os.unlink(p)
    # ---- the table entry a real add_block / replace_block / setter leaves in the file ---------------------
    for i in range(max(6, desc["n"] // 40)):
        p = str(d / f"w_{os.getpid()}_{i}.tdf")
        kind = rng.choice(["data3D", "events", "emg", "platCal", "optical"])
        b1 = lib.build(C.small_block_spec(rng, kind, 0), {})
        b2 = lib.build(C.small_block_spec(rng, kind, 1), {})
        c1 = C.rcomment(rng)
        how = rng.choice(["replace", "replace", "set"]) if kind in C.SETTER else "replace"
        c2 = rng.choice(["", "", None, C.rcomment(rng)]) if how == "replace" else None
        case = {"driver": "layout", "what": "written-entry", "kind": kind, "first": c1, "how": how, "second": c2}
        rec.case({"we": i, "k": kind, "c1": c1, "c2": c2, "how": how}, True)
        Tdf.new(p)
        try:
            with Tdf(p).allow_write() as t:
                t.add_block(b1, c1)
            raw1 = open(p, "rb").read()
            with Tdf(p).allow_write() as t:
                if how == "replace":
                    t.replace_block(b2, c2) if c2 is not None else t.replace_block(b2)
                else:
                    setattr(t, C.SETTER[kind], b2)
            raw2 = open(p, "rb").read()
        except Exception as ex:
            rec.violation("C06", "written-entry:valid-request-refused", f"{type(ex).__name__}: {ex}", case, exc=ex)
            os.unlink(p)
            continue
        os.unlink(p)
        for raw, blk, cm, step in ((raw1, b1, c1, "add"), (raw2, b2, c2 if c2 is not None else c1, how)):
            x = lib.enc(blk)
            ent_raw = raw[rc.HEADER:rc.HEADER + rc.ENTRY]
            got_e, _sp = rc.decode_entry(ent_raw)
            want = {"type": rc.TYPE_CODES[kind], "format": lib.fmt_of(blk), "offset": rc.HEADER + rc.ENTRY * 14, "size": len(x),
                    "cdate": int(blk.creation_date.timestamp()), "mdate": int(blk.last_modification_date.timestamp()),
                    "adate": got_e["adate"], "comment": cm}
            rec.count("oracle:C06.written-entry==reference")
            if ent_raw != rc.encode_entry(want):
                dff = rc.spec_diff(want, got_e) or "same fields, but the fixed-width comment field is not the text, its NUL and zero padding"
                rec.violation("C06", "written-entry:differs-from-layout", f"after {step}: {dff}", case)
                break
    # ---- Tdf.new vs the canonical empty container ------------------------------------------------
    for i in range(max(3, desc["n"] // 100)):
        p = str(d / f"n_{os.getpid()}_{i}.tdf")
        t0 = int(time.time()) - 1
        Tdf.new(p)
        t1 = int(time.time()) + 1
        data = open(p, "rb").read()
        os.unlink(p)
        c = rc.parse_container(data)
        rec.case({"new": i}, True)
        rec.count("oracle:C06.new==canonical")
        dts = sorted({c["cdate"], c["mdate"], c["adate"]} | {e[k] for e in c["entries"] for k in ("cdate", "mdate", "adate")})
        if not dts or dts[0] < t0 or dts[-1] > t1:
            rec.violation("C06", "new:dates-outside-call-window", f"{dts} not within [{t0},{t1}]", {"driver": "layout", "what": "new"})
            continue
        comments = {e["comment"] for e in c["entries"]}
        cm = comments.pop() if len(comments) == 1 and None not in comments else ""
        ref = rc.encode_container(14, [], 1, (c["cdate"], c["mdate"], c["adate"]),
                                  (c["entries"][0]["cdate"], c["entries"][0]["mdate"], c["entries"][0]["adate"]), cm)
        if data != ref:
            pos = next((k for k in range(min(len(ref), len(data))) if ref[k] != data[k]), None)
            rec.violation("C06", "new:differs-from-canonical-empty-container",
                          f"first difference at byte {pos}; length {len(data)} vs {len(ref)}", {"driver": "layout", "what": "new"})


def _tdf_view(path):
    """what a Tdf reports for a file: header fields, entries, decoded blocks"""
    out = {}
    with Tdf(path) as t:
        out["header"] = (int(t.version), int(t.nEntries), int(t.creation_date.timestamp()),
                         int(t.last_modification_date.timestamp()), int(t.last_access_date.timestamp()))
        out["entries"] = [(e.type.value, int(e.format), int(e.offset), int(e.size), e.comment,
                           int(e.creation_date.timestamp()), int(e.last_modification_date.timestamp()),
                           int(e.last_access_date.timestamp())) for e in t.entries]
        out["len"] = len(t)
        blocks = []
        for i, e in enumerate(t.entries):
            if e.type.value in rc.CODE_TYPES:
                b = t.get_block(i)
                x = lib.enc(b)
                blocks.append((e.type.value, lib.view(b, x), x))
        out["blocks"] = blocks
    return out


def shard_container_scramble(desc, rec):
    rng = random.Random(desc["seed"] * 59 + 2)
    d = env.scratch_dir()
    for i in range(desc["n"]):
        n = rng.choice([1, 2, 3, 4, 6, 14, 20, 40])
        nlive = rng.randint(0, min(n, 5))
        seed = rng.getrandbits(32)
        clean, m = C.make_initial(random.Random(seed), n, nlive, 0.0, False)
        dirty, m2 = C.make_initial(random.Random(seed), n, nlive, 0.0, True)
        case = {"driver": "layout", "what": "scramble", "n": n, "nlive": nlive, "seed": seed}
        ndiff = sum(1 for a, b in zip(clean, dirty) if a != b)
        rec.case(case, nontrivial=ndiff > 0, sample=dict(case, bytes_differing=ndiff) if i % 20 == 0 else None)
        rec.count("c12:container-dontcare-bytes-differing", ndiff)
        if len(clean) != len(dirty):
            rec.inconc("scrambled container has a different length (harness bug)")
            continue
        p1, p2 = str(d / f"c_{os.getpid()}_{i}.tdf"), str(d / f"d_{os.getpid()}_{i}.tdf")
        open(p1, "wb").write(clean)
        open(p2, "wb").write(dirty)
        try:
            v1, v2 = _tdf_view(p1), _tdf_view(p2)
        except Exception as ex:
            rec.violation("C12", "container:dontcare-bytes-break-reading", f"{type(ex).__name__}: {ex}", case, exc=ex)
            os.unlink(p1); os.unlink(p2)
            continue
        rec.count("oracle:C12.container-independent-of-dontcare")
        try:     # ... and the library's own comparison of the two files sees no difference either
            with Tdf(p1) as t1_, Tdf(p2) as t2_:
                same = bool(t1_ == t2_)
            if not same:
                rec.violation("C12", "container:comparison-depends-on-dontcare-bytes",
                              "Tdf == Tdf is False for two files that differ only in don't-care bytes", case)
        except Exception as ex:
            rec.violation("C12", "container:dontcare-bytes-break-comparison", f"{type(ex).__name__}: {ex}", case, exc=ex)
        for k in ("header", "entries", "len"):
            if v1[k] != v2[k]:
                rec.violation("C12", f"container:{k}-depends-on-dontcare-bytes", f"{v1[k]} != {v2[k]}", case)
        for (t1, s1, x1), (t2, s2, x2) in zip(v1["blocks"], v2["blocks"]):
            dff = rc.spec_diff(s1, s2)
            if dff:
                rec.violation("C12", "container:block-content-depends-on-dontcare-bytes", dff, case)
            if x1 != x2:
                rec.violation("C12", "container:block-reencoding-depends-on-dontcare-bytes", f"type {t1}", case)
        # the same mutation applied to both files must leave them reporting the same content
        if m.live:
            code = m.types()[0]
            outcome = []
            store_back = i % 2 == 1 and code in rc.CODE_TYPES     # odd cases: read a block and store it back unchanged
            for p in (p1, p2):
                try:
                    with Tdf(p).allow_write() as t:
                        if store_back:
                            t.replace_block(t.get_block(BlockType(code)))
                        else:
                            t.remove_block(BlockType(code))
                    outcome.append("ok")
                except Exception as ex:
                    outcome.append(f"{type(ex).__name__}: {str(ex)[:80]}")
            if outcome[0] != outcome[1]:
                rec.violation("C12", "container:mutation-outcome-depends-on-dontcare-bytes",
                              f"{'store-back' if store_back else 'remove_block'} on the clean file: {outcome[0]}; on the file differing only in don't-care bytes: {outcome[1]}", case)
                os.unlink(p1); os.unlink(p2)
                continue
            try:
                w1, w2 = _tdf_view(p1), _tdf_view(p2)
                rec.count("oracle:C12.after-mutation-independent-of-dontcare")
                rec.count("c12:twin-mutation:" + ("store-back" if store_back else "remove"))
                # (a block that was read and stored back carries the time of reading as its dates: not compared)
                a1 = [e[:5] if store_back else e[:7] for e in w1["entries"] if e[0] != 0]
                a2 = [e[:5] if store_back else e[:7] for e in w2["entries"] if e[0] != 0]
                if a1 != a2 or w1["header"][:2] != w2["header"][:2]:
                    rec.violation("C12", "container:mutation-result-depends-on-dontcare-bytes", f"{a1} != {a2}", case)
                for (t1, s1, x1), (t2, s2, x2) in zip(w1["blocks"], w2["blocks"]):
                    if rc.spec_diff(s1, s2):
                        rec.violation("C12", "container:block-content-depends-on-dontcare-bytes", "after remove", case)
            except Exception as ex:
                rec.note(f"after-mutation view failed: {type(ex).__name__}: {ex}")
        os.unlink(p1); os.unlink(p2)


def shard_full_width(desc, rec):
    """decode direction only: layout-conformant bytes in which a fixed-width string fills its field completely
    (no terminator).  The reader must return the whole field; the next field must stay aligned."""
    rng = random.Random(desc["seed"] * 61 + 8)
    from basictdf.basictdf import TdfEntry as _E
    for i in range(desc["n"]):
        kind = ["data3D", "force3D", "platCal", "optical", "events"][i % 5]
        spec = C.small_block_spec(rng, kind, 1)
        key = lib.ITEMS_KEY[kind]
        if not spec[key]:
            continue
        j = rng.randrange(len(spec[key]))
        fld, width = (rng.choice(["lens", "type", "name"]), 32) if kind == "optical" else ("label", 256)
        pool = gen.CP1252_CHARS if rng.random() < 0.5 else gen.ASCII
        label = "".join(rng.choice(pool) for _ in range(width))
        spec[key][j][fld] = label
        case = {"driver": "layout", "what": "full-width", "kind": kind, "field": fld, "item": j}
        rec.case({"fw": kind, "f": fld, "l": label[:8], "i": i}, True, sample=case if i % 50 == 0 else None)
        rc.ALLOW_FULL_WIDTH = True
        try:
            x = rc.encode_block(spec)
        finally:
            rc.ALLOW_FULL_WIDTH = False
        rec.count("oracle:C06.full-width-field-decoded-whole")
        # just before: a block whose 256-byte label fields carry non-zero bytes after their terminators is decoded -
        # what an unterminated field reads may not depend on the don't-care bytes of a field read earlier (C12)
        try:
            pre = C.small_block_spec(rng, rng.choice(["data3D", "emg", "events"]), 1)
            xp = rc.encode_block(pre)
            _, spans_p, _ = rc.decode_block(pre["t"], pre["format"], xp)
            lib.dec(pre["t"], pre["format"], rc.scramble(xp, spans_p, rng, rng.choice(["text", "random", "ff"])))
            rec.count("oracle:C12.unterminated-field-after-scrambled-read")
        except Exception:
            pass
        try:
            blk, used = lib.dec(kind, spec["format"], x, b"", b"\x00\x00")
        except Exception as e:
            rec.violation("C06", f"{kind}:full-width-field:decode-raises", f"{type(e).__name__}: {e}", case, exc=e)
            rec.violation("C12", "unterminated-field-read-depends-on-earlier-dontcare-bytes", f"{kind}.{fld}: {type(e).__name__}: {e}", case, exc=e)
            continue
        items = {"data3D": lambda: blk.tracks, "force3D": lambda: blk.tracks, "platCal": lambda: [p for _, p in blk.platforms],
                 "optical": lambda: blk.channels, "events": lambda: blk.events}[kind]()
        got = lib.view_item(kind, items[j])[fld]
        if got != label or used != len(x):
            rec.violation("C06", f"{kind}:full-width-field:decoded-value-differs",
                          f"{fld} of {width} characters decodes to {len(got)} characters (consumed {used} of {len(x)})", case)
            rec.violation("C13", "read:full-width-string-through-block", f"{kind}.{fld}", case)
            rec.violation("C12", "unterminated-field-read-depends-on-earlier-dontcare-bytes",
                          f"{kind}.{fld} of {width} characters decodes to {len(got)} characters after a block with non-zero "
                          f"after-terminator bytes was read", case)
        # the items after it are still aligned
        for k_, it in enumerate(spec[key]):
            if k_ != j and lib.view_item(kind, items[k_]).get("label", None) != it.get("label", None):
                rec.violation("C06", f"{kind}:full-width-field:following-items-misaligned", f"item {k_}", case)
                break
    # table entry comment of 256 characters
    for i in range(max(5, desc["n"] // 20)):
        e = {"type": rng.randint(1, 16), "format": 1, "offset": 4096, "size": 10, "cdate": C.rdate(rng),
             "mdate": C.rdate(rng), "adate": C.rdate(rng), "comment": "".join(rng.choice(gen.ASCII) for _ in range(256))}
        rc.ALLOW_FULL_WIDTH = True
        try:
            raw = rc.encode_entry(e)
        finally:
            rc.ALLOW_FULL_WIDTH = False
        rec.case({"fw-entry": i}, True)
        rec.count("oracle:C06.full-width-field-decoded-whole")
        try:
            got = _E._build(BytesIO(raw)).comment
        except Exception as ex:
            rec.violation("C06", "entry:full-width-comment:decode-raises", f"{type(ex).__name__}: {ex}", {"driver": "layout", "what": "full-width"}, exc=ex)
            continue
        if got != e["comment"]:
            rec.violation("C06", "entry:full-width-comment:decoded-value-differs", f"{len(got)} of 256 characters",
                          {"driver": "layout", "what": "full-width"})


def replay(case, rec):
    if case.get("what") == "full-width":
        return shard_full_width({"seed": 0, "n": 100}, rec)
    if case.get("what") == "scramble":
        shard_container_scramble({"seed": 0, "n": 30}, rec)
    else:
        shard_container_layout({"seed": 0, "n": 50}, rec)
