"""C07 fault enumeration on top of the container driver."""
from __future__ import annotations

import hashlib
import itertools
import random

from .. import env, gen, refcodec as rc

env.bootstrap()
from .. import lib  # noqa: E402
from ..monitors import codec as codec_mon  # noqa: E402
from . import container as C  # noqa: E402


def catalogue(present_kinds):
    """every fault recipe that applies in a state holding `present_kinds` (cheap descriptors;
    materialised into an operation only when selected)"""
    out = []
    pres = set(present_kinds)

    def hows(kind):
        if kind in pres:
            return ["replace"] + (["set"] if kind in C.SETTER else [])
        return ["add"] + (["set"] if kind in C.SETTER else [])
    for what in ("label-too-long", "label-non-cp1252"):
        for kind in C.FAULT_KINDS_LABEL:
            for how in hows(kind):
                for pos in ("first", "middle", "last"):
                    for fld in (("lens_name", "camera_type", "camera_name") if kind == "optical" else (None,)):
                        out.append({"what": what, "kind": kind, "how": how, "pos": pos, "field": fld})
    for kind in C.FAULT_KINDS_FORMAT:
        for how in hows(kind):
            fmts = {"data3D": ["byFrame", "byFrameWithoutLinks", "unknownFormat"],
                    "force3D": ["byFrame", "byTrackWithSpeed", "byFrameWithSpeed", "unknownFormat"],
                    "data2D": ["RTSFormat", "SYNCFormat"]}.get(kind, [None])
            for fm in fmts:
                out.append({"what": "unsupported-format", "kind": kind, "how": how, "fmt": fm})
    for obj in ("none", "str", "track", "fake", "duck"):
        for how in ("add", "replace", "set"):
            out.append({"what": "wrong-object", "kind": "events", "how": how, "obj": obj})
    for what in ("comment-too-long", "comment-non-cp1252", "comment-with-NUL"):
        for kind in ("events", "data3D", "platCal"):
            how = "replace" if kind in pres else "add"
            for ln in ((256, 257, 300) if what == "comment-too-long" else (0,)):
                out.append({"what": what, "kind": kind, "how": how, "comment_len": ln})
            if how == "replace":
                out.append({"what": what, "kind": kind, "how": how, "comment_len": 256, "same_as_stored": True})
    return out


def materialise(rng, r, pres):
    o = C.fault_op(rng, set(pres), gen.KINDS, r["what"], r["how"], r["kind"])
    if o.get("fault"):
        for k in ("pos", "field", "fmt", "obj"):
            if r.get(k) is not None:
                o["fault"][k] = r[k]
    if "comment_len" in r:
        o["comment_len"] = r["comment_len"]
    if "same_as_stored" in r:
        o["same_as_stored"] = r["same_as_stored"]
    else:
        o.pop("same_as_stored", None)
    return o


def continuation(rng, present_kinds, free):
    """3 valid operations"""
    pres = set(present_kinds)
    ops = []
    for _ in range(3):
        absent = [k for k in gen.KINDS if k not in pres]
        r = rng.random()
        if pres and (r < 0.35 or not absent or free == 0):
            if r < 0.2 or free == 0 and rng.random() < 0.5:
                k = rng.choice(sorted(pres))
                pres.discard(k)
                free += 1
                ops.append({"op": "remove", "kind": k, "code": rc.TYPE_CODES[k]})
            else:
                k = rng.choice(sorted(pres))
                ops.append(C.op_add(rng, k, rng.choice([0, 1]), how="replace"))
        elif absent and free > 0:
            k = rng.choice(absent)
            pres.add(k)
            free -= 1
            ops.append(C.op_add(rng, k, rng.choice([0, 1])))
    return ops


def shadow(n, prefill_types, ops):
    """abstract effect of a prefix (set of present library kinds, free slots)"""
    pres = list(prefill_types)
    nlive = len(pres)
    for o in ops:
        if o["op"] in ("add", "set", "replace"):
            k = o["spec"]["t"]
            if o.get("fault") or o.get("comment_fault"):
                continue
            if k in pres:
                if o["op"] != "add":
                    pres.remove(k)
                    pres.append(k)
            elif o["op"] != "replace" and nlive < n:
                pres.append(k)
                nlive += 1
        elif o["op"] == "remove":
            k = o.get("kind")
            if k in pres:
                pres.remove(k)
                nlive -= 1
    return pres, n - nlive


def shard_fault_matrix(desc, rec):
    codec_mon.install(rec)
    rng = random.Random(desc["seed"] * 101 + 7)
    alpha = C.exhaustive_alphabet(rng)
    orc = desc["oracles"]
    idx = 0
    for n in (1, 2, 3):
        prefixes = [()]
        for d in range(1, desc["depth"] + 1):
            prefixes.extend(itertools.product(range(len(alpha)), repeat=d))
        for pre in prefixes:
            pre_ops = [dict(alpha[j], full=False) for j in pre]
            pres, free = shadow(n, [], pre_ops)
            crng = random.Random(hash((desc["seed"], n, pre)) & 0xFFFFFFFF)
            cat = catalogue(pres)
            for recipe in cat:
                idx += 1
                if idx % desc["parts"] != desc["part"]:
                    continue
                if (idx // desc["parts"]) % desc["stride"] != 0:
                    continue
                fo = materialise(crng, recipe, pres)
                if recipe["what"].startswith("label") and not fo.get("fault"):
                    continue
                cont = continuation(crng, pres, free)
                for co in cont[:-1]:
                    co["full"] = False
                fo["full"] = False
                ops = pre_ops + [fo] + cont
                init = {"how": "foreign", "n": n, "nlive": 0, "seed": desc["seed"], "opaque_p": 0.0,
                        "scramble": False}
                h = C.History(rec, orc, init, ops, "fault-matrix")
                rec.case({"n": n, "pre": pre, "fault": C._op_brief(fo)},
                         nontrivial=bool(pres) or bool(fo.get("fault")),
                         sample={"n": n, "prefix": [C._op_brief(o) for o in pre_ops], "fault": C._op_brief(fo),
                                 "continuation": [C._op_brief(o) for o in cont]} if idx % 1999 == 0 else None)
                C.run_history(rec, h)
                if not h.stopped:
                    rec.count("c07:continuations-completed")


def shard_holes(desc, rec):
    """well-formed files with one or more unused slots between live blocks: a rejected add / replace must
    leave file and open object alone, and a following valid removal must behave as if it had never been made"""
    codec_mon.install(rec)
    rng = random.Random(desc["seed"] * 5 + 2)
    orc = desc["oracles"]
    for i in range(desc["n"]):
        n = rng.choice([4, 6, 14])
        nlive = rng.randint(3, min(n, 6))
        hole_n = rng.choice([1, 1, 2, 3])
        hole_n = min(hole_n, nlive - 2) or 1
        init = {"how": "foreign", "n": n, "nlive": nlive, "seed": rng.getrandbits(32), "opaque_p": 0.0,
                "scramble": rng.random() < 0.5, "hole_at": rng.randint(0, nlive - 1 - hole_n), "hole_n": hole_n}
        _, m = C.make_initial(random.Random(init["seed"]), n, nlive, 0.0, init["scramble"])
        types = [rc.CODE_TYPES[t] for t in m.types()]
        at = max(0, min(init["hole_at"], len(types) - 1 - hole_n))
        removed = types[at:at + hole_n]
        before_hole = types[:at]
        after_hole = types[at + hole_n:]
        absent = [k for k in gen.KINDS if k not in types or k in removed]
        if rng.random() < 0.5 or not before_hole:
            k = rng.choice(absent)
            how = "set" if (k in C.SETTER and rng.random() < 0.4) else "add"
        else:
            k = rng.choice(before_hole)
            how = "set" if (k in C.SETTER and rng.random() < 0.4) else "replace"
        ops = [C.op_add(rng, k, rng.choice([0, 1]), how=how)]
        if how in ("replace", "set") and rng.random() < 0.4:
            # clear the way (remove everything behind the hole, then the block itself) and submit the refused
            # object again, edited in place meanwhile, as a plain add
            for v_ in after_hole:
                ops.append({"op": "remove", "kind": v_, "code": rc.TYPE_CODES[v_]})
            ops.append({"op": "remove", "kind": k, "code": rc.TYPE_CODES[k]})
            ops.append(dict(C.op_add(rng, k, 1, how="add"), resubmit=True))
        elif rng.random() < 0.7:
            victim = rng.choice(before_hole + after_hole)
            ops.append({"op": "remove", "kind": victim, "code": rc.TYPE_CODES[victim], "hole_ok": True})
        h = C.History(rec, orc, init, ops, "holes")
        rec.case({"init": init, "op": C._op_brief(ops[0])}, True,
                 sample={"init": init, "ops": [C._op_brief(o) for o in ops]} if i % 40 == 0 else None)
        C.run_history(rec, h)


def shard_failpoints(desc, rec):
    """inject an encoder exception at the k-th statement of the block's _write / nBytes"""
    codec_mon.ENABLED = False  # the codec monitor reads nBytes itself and would swallow injected faults
    from ..monitors import failpoints as fp
    from basictdf import Tdf
    import os
    fp.install()
    rng = random.Random(desc["seed"] * 19 + desc.get("shard", 0))
    for i in range(desc["n"]):
        kind = gen.KINDS[(i + desc.get("shard", 0) * 3) % 9]
        # every kind is visited with the block present (replace / set) on its even visits and absent (add / set) on its
        # odd ones, so that both request paths of every encoder are exercised whatever the random streams give
        want_present = (i // 9) % 2 == 0
        init = C.describe_init(rng, how="foreign")
        tries_ = 0
        while (init["n"] - init["nlive"] < 1 or ((kind in init["_types"]) != want_present and tries_ < 200)):
            init = C.describe_init(rng, how="foreign")
            tries_ += 1
        present = kind in init["_types"]
        how = rng.choice(["replace", "set"] if (present and kind in C.SETTER) else
                         ["replace"] if present else (["add", "set"] if kind in C.SETTER else ["add"]))
        o = C.op_add(rng, kind, 1, how=how)
        blk0 = C.make_block(o)
        for scope in ("_write", "nBytes"):
            total = fp.count_statements(blk0, scope)
            rec.count(f"failpoints:statements:{scope}", total)
            ks = list(range(1, total + 1))
            if len(ks) > desc["max_k"]:
                ks = sorted(rng.sample(ks, desc["max_k"] - 2) + [1, total])
            for k in ks:
                h = C.History(rec, desc["oracles"], init, [], "failpoints")
                h.states, h.trans, h.faults = set(), set(), set()
                h.setup()
                h.enter(True)
                blk = C.make_block(o)
                before = h.raw()
                err = None
                with fp.armed(blk, scope, k) as arm:
                    try:
                        if how == "add":
                            h.tdf.add_block(blk, o.get("comment") or "fp")
                        elif how == "replace":
                            h.tdf.replace_block(blk)
                        else:
                            setattr(h.tdf, C.SETTER[kind], blk)
                    except Exception as e:
                        err = e
                case = {"driver": "faults", "init": init, "op": o, "scope": scope, "k": k}
                rec.case({"i": init["seed"], "kind": kind, "how": how, "scope": scope, "k": k}, True,
                         sample={"init": {a: b for a, b in init.items() if not a.startswith("_")}, "how": how,
                                 "kind": kind, "scope": scope, "k": k, "of": total} if (i + k) % 61 == 0 else None)
                if arm.fired:
                    rec.count("failpoints:fired")
                    rec.count(f"failpoints:site:{scope}")
                after = h.raw()
                if err is not None:
                    rec.count("oracle:C07.rejected-leaves-file")
                    rec.count("c07:cause:injected-encoder-fault")
                    if hashlib.sha256(after).digest() != hashlib.sha256(before).digest():
                        lost = ""
                        ca = rc.parse_container(after)
                        if present and rc.TYPE_CODES[kind] not in [e["type"] for e in ca.get("entries", [])]:
                            lost = " - the block that was to be replaced is gone"
                        rec.violation("C07", f"{how}:injected-encoder-fault:file-changed",
                                      f"{type(err).__name__} raised at statement {k}/{total} of {kind}.{scope} during "
                                      f"{how}; file changed ({len(before)} -> {len(after)} bytes){lost}", case)
                    else:
                        c = rc.parse_container(after)
                        mem = [(e.type.value, int(e.offset), int(e.size)) for e in h.tdf.entries]
                        dsk = [(e["type"], e["offset"], e["size"]) for e in c["entries"]]
                        if mem != dsk:
                            rec.violation("C07", f"{how}:injected-encoder-fault:memory-table-changed",
                                          f"statement {k}/{total} of {kind}.{scope}", case)
                elif arm.fired:
                    rec.count("failpoints:fault-swallowed")
                    rec.violation("C07", f"{how}:injected-encoder-fault:accepted",
                                  f"encoder raised at statement {k} of {kind}.{scope} but {how} returned normally", case)
                h.leave()
                if os.path.exists(h.path):
                    os.unlink(h.path)


SHARDS = {"fault-matrix": shard_fault_matrix, "holes": shard_holes, "failpoints": shard_failpoints}


def run_shard(desc, rec):
    SHARDS[desc["kind"]](desc, rec)


def replay(case, rec, oracles):
    rec.note("failpoint cases are replayed by re-running the failpoints shard with the same seed")
    shard_failpoints({"seed": 0, "n": 9, "max_k": 10, "oracles": list(oracles)}, rec)
