"""C19 - constructors refuse arguments whose shape would mis-size the encoding."""
from __future__ import annotations

import itertools
import random
import warnings

import numpy as np

from .. import env, gen

env.bootstrap()
from .. import lib  # noqa: E402

from basictdf import (tdfData3D, tdfForce3D, tdfCalibrationData, tdfOpticalSystem, tdfEvents,  # noqa: E402
                      tdfTypes)

warnings.filterwarnings("ignore")

DTYPES = ["int8", "int32", "int64", "uint16", "float16", "float32", "float64", "bool"]


def all_shapes():
    out = [()]
    for r in (1, 2, 3):
        out.extend(itertools.product(range(5), repeat=r))
    return out


SHAPES = all_shapes()          # 1 + 5 + 25 + 125 = 156
OTHERS = [None, "abc", 3, 2.5, b"xyz", [1.0, 2.0, 3.0], (1, 2), {"a": 1}, object()]
import collections as _c
SEQ2 = [b"12", bytearray(b"ab"), range(2), _c.deque([1, 2]), memoryview(b"xy"), "12", {1, 2}, {1: 1, 2: 2},
        iter([1, 2]), np.int32(5)]


def same_size_shapes(req):
    """other shapes holding exactly as many elements as the required one (beyond the 0..4 extent grid)"""
    n = int(np.prod(req))
    out = {(n,), (n, 1), (1, n), (1, 1, n), (n, 1, 1), (1, n, 1)}
    if len(req) == 2:
        out |= {req + (1,), (1,) + req, (req[1], req[0]) if req[0] != req[1] else (n,)}
    if len(req) == 1:
        out |= {(req[0], 1), (1, req[0])}
    out.discard(tuple(req))
    return sorted(out)


def arr(shape, dtype, rng):
    n = int(np.prod(shape)) if shape else 1
    a = (np.arange(n) % 5 + 1).astype(dtype) if dtype != "bool" else (np.arange(n) % 2 == 0)
    return a.reshape(shape)


def good(shape, dtype="float32"):
    return arr(shape, dtype, None)


# ---- constructors under test: name -> (callable(arg) building the object, required shape, encodable?) ----
def _data3d(**kw):
    base = dict(frequency=100, nFrames=4, volume=good((3,)), rotationMatrix=good((3, 3)), translationVector=good((3,)))
    base.update(kw)
    return tdfData3D.Data3D(**base)


def _force3d(**kw):
    base = dict(frequency=100, nFrames=4, volume=good((3,)), rotationMatrix=good((3, 3)), translationVector=good((3,)))
    base.update(kw)
    return tdfForce3D.ForceTorque3D(**base)


def _seelab(**kw):
    base = dict(rotation_matrix=good((3, 3), "float64"), translation_vector=good((3,), "float64"),
                focus=good((2,), "float64"), optical_center=good((2,), "float64"),
                radial_distortion=good((2,), "float64"), decentering=good((2,), "float64"),
                thin_prism=good((2,), "float64"),
                view_port=tdfTypes.CameraViewPort(np.array([0, 0], np.int32), np.array([640, 480], np.int32)))
    base.update(kw)
    return tdfCalibrationData.SeelabCameraData(**base)


def _calib(**kw):
    cams = [_seelab(), _seelab()]
    base = dict(distorsion_model=tdfCalibrationData.DistorsionModel.Seelab1Distorsion,
                calibration_volume_size=good((3,)), calibration_volume_rotation_matrix=good((3, 3)),
                calibration_volume_translation_vector=good((3,)),
                cameras_calibration_map=np.array([0, 1], dtype=np.int16), cam_data=cams)
    base.update(kw)
    return tdfCalibrationData.CalibrationDataBlock(**base)


TARGETS = {
    "Data3D.volume": (lambda a: _data3d(volume=a), (3,)),
    "Data3D.rotationMatrix": (lambda a: _data3d(rotationMatrix=a), (3, 3)),
    "Data3D.translationVector": (lambda a: _data3d(translationVector=a), (3,)),
    "ForceTorque3D.volume": (lambda a: _force3d(volume=a), (3,)),
    "ForceTorque3D.rotationMatrix": (lambda a: _force3d(rotationMatrix=a), (3, 3)),
    "ForceTorque3D.translationVector": (lambda a: _force3d(translationVector=a), (3,)),
    "CalibrationDataBlock.volume": (lambda a: _calib(calibration_volume_size=a), (3,)),
    "CalibrationDataBlock.rotation": (lambda a: _calib(calibration_volume_rotation_matrix=a), (3, 3)),
    "CalibrationDataBlock.translation": (lambda a: _calib(calibration_volume_translation_vector=a), (3,)),
    "SeelabCameraData.rotation_matrix": (lambda a: _seelab(rotation_matrix=a), (3, 3)),
    "SeelabCameraData.translation_vector": (lambda a: _seelab(translation_vector=a), (3,)),
    "SeelabCameraData.focus": (lambda a: _seelab(focus=a), (2,)),
    "SeelabCameraData.optical_center": (lambda a: _seelab(optical_center=a), (2,)),
    "SeelabCameraData.radial_distortion": (lambda a: _seelab(radial_distortion=a), (2,)),
    "SeelabCameraData.decentering": (lambda a: _seelab(decentering=a), (2,)),
    "SeelabCameraData.thin_prism": (lambda a: _seelab(thin_prism=a), (2,)),
    # viewport given as one (2,2) array (coercion sites)
    "SeelabCameraData.view_port(2x2)": (lambda a: _seelab(view_port=a), (2, 2)),
    "OpticalChannelData.camera_viewport(2x2)": (
        lambda a: tdfOpticalSystem.OpticalSetupBlock(channels=[tdfOpticalSystem.OpticalChannelData(1, "l", "t", "n", a)]), (2, 2)),
    # CameraViewPort origin / size
    "CameraViewPort.origin": (lambda a: _seelab(view_port=tdfTypes.CameraViewPort(a, np.array([1, 2], np.int32))), (2,)),
    "CameraViewPort.size": (lambda a: _seelab(view_port=tdfTypes.CameraViewPort(np.array([1, 2], np.int32), a)), (2,)),
}
MAP_TARGET = "CalibrationDataBlock.cameras_calibration_map"


def size_ok(obj):
    """declared size == encoded size for an accepted object (or it refuses at encode time)"""
    try:
        nb = int(obj.nBytes)
        x = lib.enc(obj)
    except Exception as e:
        return True, f"refuses at encode time ({type(e).__name__})"
    return nb == len(x), f"nBytes={nb}, encoded {len(x)} bytes"


def check_arg(rec, name, fn, req, arg, desc, expect):
    """expect: 'accept' | 'refuse' | 'either'"""
    case = {"driver": "shapes", "target": name, "arg": desc}
    rec.case({"t": name, "a": desc}, True, sample=case if rec.evaluations % 2003 == 0 else None)
    rec.count(f"c19:{name.split('.')[0]}")
    try:
        obj = fn(arg)
        err = None
    except Exception as e:
        obj, err = None, e
    rec.count(f"oracle:C19.{expect}")
    if expect == "refuse" and err is None:
        ok, why = size_ok(obj)
        rec.violation("C19", f"{name}:wrong-argument-accepted",
                      f"{desc} accepted where shape {req} is required ({why})", case)
        return
    if expect == "accept" and err is not None:
        rec.violation("C19", f"{name}:exact-shape-refused", f"{desc} refused: {type(err).__name__}: {err}", case)
        return
    if err is None:
        ok, why = size_ok(obj)
        rec.count("oracle:C19.accepted-object-sizes-right")
        if not ok:
            rec.violation("C19", f"{name}:accepted-object-mis-sized", f"{desc} accepted, then {why}", case)


def shard_grid(desc, rec):
    rng = random.Random(desc["seed"] * 97 + 1)
    for name, (fn, req) in TARGETS.items():
        is_vp_elem = name.startswith("CameraViewPort.")
        for shape in SHAPES:
            for dt in DTYPES:
                a = arr(shape, dt, rng)
                exp = "accept" if tuple(shape) == tuple(req) else "refuse"
                check_arg(rec, name, fn, req, a, f"ndarray{tuple(shape)}:{dt}", exp)
        for shape in same_size_shapes(tuple(req)):
            for dt in ("float32", "float64", "int32"):
                check_arg(rec, name, fn, req, arr(shape, dt, rng), f"ndarray{tuple(shape)}:{dt}:same-size", "refuse")
        if is_vp_elem:    # only lists, tuples and arrays are documented for viewports
            for o in SEQ2:
                check_arg(rec, name, fn, req, o, f"{type(o).__name__}:two-element-non-list", "refuse")
        for o in OTHERS:
            exp = "refuse"
            if is_vp_elem and isinstance(o, tuple) and len(o) == 2:
                exp = "accept"
            if isinstance(o, (list, tuple)) and not is_vp_elem and np.shape(o) == tuple(req):
                exp = "refuse"
            check_arg(rec, name, fn, req, o, f"{type(o).__name__}:{str(o)[:20]}", exp)
        if is_vp_elem:
            for o, exp in (([1, 2], "accept"), ((3, 4), "accept"), ([1, 2, 3], "refuse"), ((1,), "refuse"), ([], "refuse"),
                           ([[1, 2]], "refuse")):
                check_arg(rec, name, fn, req, o, f"{type(o).__name__}:{o}", exp)
            # two-element lists / tuples of any plain numbers: python ints and floats, numpy scalars (what list(arr),
            # tuple(arr) or arr.tolist() give), mixed
            for sc in (int, float, np.int16, np.int32, np.int64, np.uint16, np.uint32, np.float32, np.float64):
                for ctor in (list, tuple):
                    check_arg(rec, name, fn, req, ctor([sc(3), sc(40)]), f"{ctor.__name__}-of-{sc.__name__}", "accept")
            for dt in ("int16", "int32", "int64", "float32"):
                a2 = np.array([5, 6], dtype=dt)
                check_arg(rec, name, fn, req, list(a2), f"list(ndarray:{dt})", "accept")
                check_arg(rec, name, fn, req, tuple(a2), f"tuple(ndarray:{dt})", "accept")
                check_arg(rec, name, fn, req, a2.tolist(), f"ndarray:{dt}.tolist()", "accept")
            # subclasses of list / tuple / ndarray are lists, tuples and arrays
            import collections as _cl
            P2 = _cl.namedtuple("P2", "x y")

            class L2(list):
                pass

            class T2(tuple):
                pass

            class A2(np.ndarray):
                pass
            check_arg(rec, name, fn, req, P2(3, 4), "namedtuple(2)", "accept")
            check_arg(rec, name, fn, req, L2([3, 4]), "list-subclass(2)", "accept")
            check_arg(rec, name, fn, req, T2((3, 4)), "tuple-subclass(2)", "accept")
            check_arg(rec, name, fn, req, np.array([3, 4], dtype=np.int32).view(A2), "ndarray-subclass(2,)", "accept")
            check_arg(rec, name, fn, req, L2([3, 4, 5]), "list-subclass(3)", "refuse")
            check_arg(rec, name, fn, req, np.array([[3, 4]], dtype=np.int32).view(A2), "ndarray-subclass(1,2)", "refuse")
            check_arg(rec, name, fn, req, [1, np.int32(2)], "list:mixed-int-npint", "accept")
            check_arg(rec, name, fn, req, (np.float32(1), 2), "tuple:mixed-npfloat-int", "accept")
        else:
            # exactly-shaped nested list / tuple: "every other ... kind of object" is refused (only viewports
            # are documented to take two-element lists / tuples)
            lst = good(req).tolist()
            check_arg(rec, name, fn, req, lst, f"list{tuple(req)}", "refuse")
            check_arg(rec, name, fn, req, tuple(map(tuple, lst)) if len(req) == 2 else tuple(lst), f"tuple{tuple(req)}", "refuse")
        for odt in ("object", "U3"):
            try:
                a = np.array(good(req).tolist(), dtype=odt)
            except Exception:
                continue
            check_arg(rec, name, fn, req, a, f"ndarray{tuple(req)}:{odt}", "either")
    # both viewport arguments at once: accepted iff each of the two is a two-element list / tuple / array
    cands = [("arr2", np.array([1, 2], np.int32), True), ("list2", [1, 2], True), ("tuple2", (3, 4), True),
             ("arr22", np.array([[0, 0], [640, 480]], np.int32), False), ("nested22", [[0, 0], [640, 480]], False),
             ("nested22t", ((0, 0), (640, 480)), False), ("None", None, False), ("arr3", np.array([1, 2, 3], np.int32), False),
             ("scalar", 5, False), ("list1", [7], False), ("str", "ab", False),
             ("list-of-2-arrays(2)", [np.zeros(2, np.int32), np.ones(2, np.int32)], False),
             ("list-of-2-arrays(3)", [np.zeros(3), np.zeros(3)], False), ("list(eye2)", list(np.eye(2, dtype=np.int32)), False),
             ("tuple-of-0d-arrays", (np.array(3), np.array(4)), True)]
    for no, ao, oko in cands:
        for ns, as_, oks in cands:
            check_arg(rec, "CameraViewPort(origin,size)", lambda x: _seelab(view_port=tdfTypes.CameraViewPort(x[0], x[1])),
                      "(2,),(2,)", (ao, as_), f"origin={no},size={ns}", "accept" if (oko and oks) else "refuse")
        # ... and the second argument left out altogether
        check_arg(rec, "CameraViewPort(origin,size)", lambda x: _seelab(view_port=tdfTypes.CameraViewPort(x)),
                  "(2,),(2,)", ao, f"origin={no},size omitted", "refuse")
        check_arg(rec, "CameraViewPort(origin,size)", lambda x: _seelab(view_port=tdfTypes.CameraViewPort(origin=x)),
                  "(2,),(2,)", ao, f"origin={no} by keyword,size omitted", "refuse")
    # camera map: 1-D arrays of the matching length accepted; other ranks / kinds refused
    for shape in SHAPES:
        for dt in ("int16", "int32", "uint16"):
            a = arr(shape, dt, rng)
            if len(shape) == 1:
                exp = "accept" if shape[0] == 2 else "either"
            else:
                exp = "refuse"
            check_arg(rec, MAP_TARGET, lambda m: _calib(cameras_calibration_map=m), "(nCams,)", a, f"ndarray{tuple(shape)}:{dt}", exp)
    for o in OTHERS:
        check_arg(rec, MAP_TARGET, lambda m: _calib(cameras_calibration_map=m), "(nCams,)", o, f"{type(o).__name__}", "refuse")
    rec.exhaustive["156 shapes (rank 0-3, extents 0..4) x 8 dtypes for each of 20 validated arguments"] = True


FT_SHAPES = [(0, 3), (1, 3), (4, 3), (5, 3), (4, 2), (4, 4), (3, 4), (4,), (12,), (4, 3, 1), (1, 4, 3), ()]


def shard_coupled(desc, rec):
    """ForceTorqueTrack: every triple of shapes from a 12-shape set; Event values"""
    rng = random.Random(desc["seed"] * 101 + 3)
    for sa, sf, st in itertools.product(FT_SHAPES, repeat=3):
        for dt in (("float32",) if (sa, sf, st).count(sa) != 3 else ("float32", "float64", "int32")):
            a, f, t = arr(sa, dt, rng), arr(sf, dt, rng), arr(st, dt, rng)
            valid = sa == sf == st and len(sa) == 2 and sa[1] == 3
            name = "ForceTorqueTrack(application_point,force,torque)"
            check_arg(rec, name, lambda x: tdfForce3D.ForceTorqueTrack("lbl", x[0], x[1], x[2]), "(n,3) x3",
                      (a, f, t), f"{sa}/{sf}/{st}:{dt}", "accept" if valid else "refuse")
    for o in OTHERS:
        if isinstance(o, (list, tuple)):
            continue
        for pos in range(3):
            args = [arr((4, 3), "float32", rng) for _ in range(3)]
            args[pos] = o
            check_arg(rec, "ForceTorqueTrack(non-array)", lambda x: tdfForce3D.ForceTorqueTrack("lbl", *x), "(n,3) x3",
                      args, f"{type(o).__name__}@{pos}", "refuse")
    rec.exhaustive["ForceTorqueTrack: all 12^3 shape triples"] = True
    # events
    S, Q = tdfEvents.EventsDataType.singleEvent, tdfEvents.EventsDataType.eventSequence
    ev_cases = [
        (None, S, "refuse"), (None, Q, "refuse"), (3, S, "refuse"), (2.5, Q, "refuse"), (object(), Q, "refuse"),
        (True, S, "refuse"), (np.array(1.5), S, "refuse"), (np.array(1.5), Q, "refuse"), (np.float32(2.0), Q, "refuse"),
        (np.ma.masked_array(1.5), Q, "refuse"), (np.array(3, dtype="int32"), Q, "refuse"),
        ([], S, "accept"), ([], Q, "accept"), ([1.0], S, "accept"), ([1.0], Q, "accept"), ((2.0,), S, "accept"),
        ([1.0, 2.0], S, "refuse"), ((1.0, 2.0, 3.0), S, "refuse"), (np.array([1.0, 2.0], "float32"), S, "refuse"),
        (np.array([1.0, 2.0]), S, "refuse"), (range(3), S, "refuse"),
        ([1.0, 2.0], Q, "accept"), (np.arange(5, dtype="float32"), Q, "accept"), (np.arange(5, dtype="float64"), Q, "accept"),
        (np.arange(4, dtype="int32"), Q, "accept"), (range(4), Q, "accept"), (np.array([], "float32"), S, "accept"),
        (np.array([7.0], "float64"), S, "accept"),
    ]
    for reps in range(desc.get("reps", 1)):
        for vals, ty, exp in ev_cases:
            check_arg(rec, "Event.values", lambda v: tdfEvents.Event("ev", v, ty), "iterable", vals,
                      f"{type(vals).__name__}:{str(vals)[:24]}:{ty.name}", exp)
        for n in range(0, 6):
            vals = [gen.rf32(rng) for _ in range(n)]
            check_arg(rec, "Event.values", lambda v: tdfEvents.Event("ev", v, S), "iterable", vals, f"list[{n}]:single",
                      "accept" if n <= 1 else "refuse")
            check_arg(rec, "Event.values", lambda v: tdfEvents.Event("ev", v, Q), "iterable", vals, f"list[{n}]:sequence", "accept")


def shard_random_combo(desc, rec):
    """thorough: random combinations across arguments - at most one argument is wrong"""
    rng = random.Random(desc["seed"] * 103 + desc.get("shard", 0))
    names = list(TARGETS)
    for i in range(desc["n"]):
        name = rng.choice(names)
        fn, req = TARGETS[name]
        shape = rng.choice(SHAPES)
        dt = rng.choice(DTYPES)
        a = arr(shape, dt, rng)
        if rng.random() < 0.3:
            a = np.asfortranarray(a) if a.ndim >= 2 else (a[::1] if a.ndim == 1 else a)
        exp = "accept" if tuple(shape) == tuple(req) else "refuse"
        check_arg(rec, name, fn, req, a, f"ndarray{tuple(shape)}:{dt}:r", exp)


def _compact(rec, tag):
    """the refusal matrix in small: per validated argument the exact shape (accept), two same-size other shapes and None"""
    for name, (fn, req) in TARGETS.items():
        check_arg(rec, name, fn, req, good(req, "float32" if not name.startswith("CameraViewPort") else "int32"),
                  f"ndarray{tuple(req)}:exact:{tag}", "accept")
        for shape in same_size_shapes(tuple(req))[:2] + [tuple(req) + (2,)]:
            check_arg(rec, name, fn, req, arr(shape, "float32", None), f"ndarray{tuple(shape)}:{tag}", "refuse")
        check_arg(rec, name, fn, req, None, f"None:{tag}", "refuse")
    a, f = arr((4, 3), "float32", None), arr((4, 2), "float32", None)
    check_arg(rec, "ForceTorqueTrack(application_point,force,torque)", lambda x: tdfForce3D.ForceTorqueTrack("l", *x),
              "(n,3) x3", (a, f, a), f"(4,3)/(4,2)/(4,3):{tag}", "refuse")
    check_arg(rec, "ForceTorqueTrack(application_point,force,torque)", lambda x: tdfForce3D.ForceTorqueTrack("l", *x),
              "(n,3) x3", (a, a, a), f"(4,3)x3:{tag}", "accept")
    rec.count("c19:compact-matrix-after-event")


def shard_history(desc, rec):
    """The answer for one argument must not depend on what happened before: (a) the SAME array object is offered twice,
    reshaped in place in between (valid -> invalid and invalid -> valid); (b) the compact refusal matrix is repeated
    after every kind of earlier event: refused constructor calls, successful and FAILED decodes (truncated at every
    eighth byte, unknown format code) of every block kind, successful encodes."""
    rng = random.Random(desc["seed"] * 107 + 5)
    for name, (fn, req) in TARGETS.items():
        dt = "int32" if name.startswith("CameraViewPort") else "float32"
        for other in same_size_shapes(tuple(req)):
            a = arr(tuple(req), dt, rng).copy()
            check_arg(rec, name, fn, req, a, f"ndarray{tuple(req)}:first-use", "accept")
            a.shape = other
            check_arg(rec, name, fn, req, a, f"same-object-reshaped-in-place-to{other}", "refuse")
            a.shape = tuple(req)
            check_arg(rec, name, fn, req, a, f"same-object-reshaped-back-to{tuple(req)}", "accept")
            b = arr(other, dt, rng).copy()
            check_arg(rec, name, fn, req, b, f"ndarray{other}:first-use-invalid", "refuse")
            b.shape = tuple(req)
            check_arg(rec, name, fn, req, b, f"same-object-made-valid{tuple(req)}", "accept")
            rec.count("c19:same-object-offered-again")
    _compact(rec, "start")
    for kind in lib.KINDS:
        fmts = gen.FORMATS[kind] if hasattr(gen, "FORMATS") else [None]
        for fmt in fmts:
            spec = gen.small_spec(kind, nitems=2, nframes=4, fmt=fmt, seed=desc["seed"]) if kind in lib.RLE_KINDS \
                else gen.gen_spec(random.Random(desc["seed"] * 13 + len(kind)), kind, fmt=fmt)
            try:
                obj = lib.build(spec)
                data = lib.enc(obj)
                f = lib.fmt_of(obj)
            except Exception as e:      # generator / build trouble is not what this shard judges
                rec.count("c19:history:build-skipped")
                continue
            rec.count("c19:history:encode-ok")
            _compact(rec, f"after-encode:{kind}")
            lib.dec(kind, f, data)
            rec.count("c19:history:decode-ok")
            _compact(rec, f"after-decode:{kind}")
            failed = 0
            for cut in sorted(set(list(range(0, len(data), max(8, len(data) // 24))) + [len(data) - 1])):
                try:
                    lib.dec(kind, f, data[:cut])
                except BaseException:
                    failed += 1
            for badfmt in (0, 99, -1):
                try:
                    lib.dec(kind, badfmt, data)
                except BaseException:
                    failed += 1
            rec.count("c19:history:failed-decodes", failed)
            _compact(rec, f"after-failed-decodes:{kind}")
    for name, (fn, req) in list(TARGETS.items()):
        for o in (None, "abc", arr((5,), "float32", rng)):
            try:
                fn(o)
            except BaseException:
                rec.count("c19:history:refused-constructor-calls")
    _compact(rec, "after-refused-constructors")

SHARDS = {"grid": shard_grid, "coupled": shard_coupled, "combo": shard_random_combo, "history": shard_history}


def run_shard(desc, rec):
    SHARDS[desc["kind"]](desc, rec)


def replay(case, rec):
    rec.note("C19 cases are enumerated deterministically; re-running the grid")
    shard_grid({"seed": 0}, rec)
    shard_coupled({"seed": 0}, rec)
