"""`syscalls` monitor for C10 (thorough tier): an strace log of a child that runs container histories and prints
CALL / RETURN markers around every mutator.  Offline checker: no write-type syscall reaches the .tdf between a
mutator's RETURN marker and the next CALL / CLOSE marker - i.e. nothing was left pending in a user-space buffer.
If ptrace is unavailable the monitor reports 'unavailable'; the in-process observers remain deciding."""
from __future__ import annotations

import os
import re
import subprocess
import sys

from .. import env

SCRIPT = r'''
import os, sys, random
sys.path.insert(0, os.environ["VF_REPO_SRC"]); sys.path.insert(0, os.environ["VF_VERIF"])
from vf import env
env.bootstrap()
from vf.runner import Recorder
from vf.drivers import container as C
mark = os.open("/dev/null", os.O_WRONLY)
def M(s): os.write(mark, ("VFMARK " + s + "\n").encode())
rng = random.Random(int(os.environ["VF_SEED"]))
rec = Recorder("C10", "thorough", 0)
class H(C.History):
    def raw(self):                      # the harness' own reads must not be mistaken for the library's
        M("HARNESS-READ")
        try:
            return super().raw()
        finally:
            M("HARNESS-READ-END")
    def do(self, o):
        if o["op"] == "reopen":
            M("CLOSE"); r = super().do(o); return r
        M("CALL " + o["op"]); 
        try:
            return super().do(o)
        finally:
            pass
for i in range(int(os.environ["VF_N"])):
    init = C.describe_init(rng)
    ops = C.random_history(rng, rng.randint(8, 20), init=init)
    for o in ops:
        o["full"] = False
    h = H(rec, [], init, ops, "strace")
    M("FILE-NEXT")
    orig_observe = h.observe
    def observe(*a, _o=orig_observe, **k):
        M("RETURN")
        return _o(*a, **k)
    h.observe = observe
    h.run()
    M("CLOSE")
M("DONE")
'''


def shard_strace_c10(desc, rec):
    st = "/usr/bin/strace"
    if not os.path.exists(st):
        rec.count("strace:unavailable")
        return
    log = str(env.scratch_dir() / f"strace_c10_{os.getpid()}.log")
    envv = dict(os.environ)
    envv.update({"VF_REPO_SRC": str(env.REPO / "src"), "VF_VERIF": str(env.VERIF), "VF_SEED": str(desc["seed"]),
                 "VF_N": str(desc["n"])})
    cmd = [st, "-f", "-y", "-s", "64", "-o", log, "-e", "trace=write,pwrite64,writev,ftruncate,truncate",
           sys.executable, "-c", SCRIPT]
    try:
        p = subprocess.run(cmd, env=envv, capture_output=True, timeout=1500)
    except subprocess.TimeoutExpired:
        rec.inconc("strace run hit its watchdog")
        return
    txt = open(log, errors="replace").read() if os.path.exists(log) else ""
    if "VFMARK DONE" not in txt:
        rec.count("strace:unavailable")
        rec.note("strace produced no complete log: " + p.stderr.decode(errors="replace")[-300:])
        return
    phase = "idle"
    writes_in_call = writes_after_return = 0
    for ln in txt.splitlines():
        m = re.search(r'"VFMARK ([A-Z-]+)', ln)
        if m:
            tag = m.group(1)
            if tag == "CALL":
                phase = "call"
            elif tag == "RETURN":
                phase = "returned"
            elif tag in ("CLOSE", "FILE-NEXT"):
                phase = "idle"
            continue
        if ".tdf>" not in ln:
            continue
        if re.search(r"\b(write|pwrite64|writev|ftruncate|truncate)\(", ln):
            if phase == "returned":
                writes_after_return += 1
                rec.violation("C10", "os-level-write-after-mutator-returned",
                              f"a write reached the file after the mutator had returned (was pending in a buffer): {ln.strip()[:200]}",
                              {"driver": "syscalls", "seed": desc["seed"]})
            elif phase == "call":
                writes_in_call += 1
    rec.count("strace:writes-inside-mutator-calls", writes_in_call)
    rec.count("strace:writes-after-return", writes_after_return)
    rec.count("strace:lines-parsed", len(txt.splitlines()))
    rec.case({"strace-c10": desc["seed"], "n": desc["n"]}, True,
             sample={"strace_lines": len(txt.splitlines()), "writes_inside_calls": writes_in_call})
    rec.case({"strace-c10-b": writes_in_call}, True)
    os.unlink(log)


def run_shard(desc, rec):
    shard_strace_c10(desc, rec)
