"""Object-layer drivers: C15 (channel maps), C16 (track admission / all-or-nothing assignment),
C18 (lookup coherence), C20 (no shared state)."""
from __future__ import annotations

import random
import struct
import warnings

import numpy as np

from .. import env, gen, refcodec as rc

env.bootstrap()
from .. import lib  # noqa: E402
from . import container as C  # noqa: E402

from basictdf import (tdfData3D, tdfEMG, tdfForce3D, tdfForcePlatformsData,  # noqa: E402
                      tdfForcePlatformsCalibration, tdfEvents, tdfOpticalSystem)

warnings.filterwarnings("ignore")


def ident(xs):
    return [id(x) for x in xs]


# ================================================================================================
# C15
# ================================================================================================
ALLGAP_P = 0.0


def _mask(rng, n):
    return [False] * n if rng.random() < ALLGAP_P else gen.rmask(rng, n)


def _mk_item(rng, kind, n):
    w = {"emg": 1, "platData": 6}.get(kind)
    if kind == "platCal":
        it = {"label": gen.rlabel(rng), "size": [gen.rf32(rng), gen.rf32(rng)], "position": [gen.rf32(rng) for _ in range(12)]}
    elif kind == "emg":
        it = {"label": rng.choice(["a", "b", "c", "dup", "dup", gen.rlabel(rng)]), "frames": gen.rframes(rng, _mask(rng, n), w)}
    else:
        it = {"frames": gen.rframes(rng, _mask(rng, n), w)}
    return lib.build_item(kind, it, {})


def observed_pairs(kind, blk):
    """(channels parsed from the encoded bytes, items via public iteration) or an error string"""
    try:
        x = lib.enc(blk)
    except Exception as e:
        return None, None, f"block no longer encodable: {type(e).__name__}: {e}"
    fmt = lib.fmt_of(blk)
    try:
        spec, _, _ = rc.decode_block(kind, fmt, x)
    except Exception as e:
        return None, None, f"encoding is malformed (channel list and item list disagree?): {e}"
    if kind == "emg":
        items = list(blk)
    elif kind == "platCal":
        pr = blk.platforms
        items = [p for _, p in pr]
        if [int(c) for c, _ in pr] != spec["map"]:
            return None, None, f"platforms property reports channels {[int(c) for c, _ in pr]}, bytes carry {spec['map']}"
        if len(list(blk)) != len(items):
            return None, None, "iteration and platforms property disagree in length"
    else:
        pr = list(blk)
        items = [p for _, p in pr]
        if [int(c) for c, _ in pr] != spec["map"]:
            return None, None, f"iteration reports channels {[int(c) for c, _ in pr]}, bytes carry {spec['map']}"
        if len(list(blk.platforms)) != len(items):
            return None, None, f"platforms property has {len(list(blk.platforms))} items, iteration {len(items)}"
    if len(items) != len(spec["map"]):
        return None, None, f"{len(items)} items but {len(spec['map'])} channels in the encoding"
    return spec["map"], items, None


def c15_sequence(rec, rng, kind, start, length, case):
    n = rng.randint(1, 6)
    shadow = []  # list of (channel, item)

    def V(key, msg):
        rec.violation("C15", f"{kind}:{key}", f"[start={start}, after {steps}] {msg}", dict(case, steps=list(steps)))
        size_oracle()

    def size_oracle():
        """C02, evaluated on whatever state the sequence has reached: the decoder consumes exactly what was written"""
        try:
            x_ = lib.enc(blk)
            _b, used_ = lib.dec(kind, lib.fmt_of(blk), x_, b"", b"\xa5" * 64)
        except Exception:
            return
        rec.count("oracle:C02.consumed==written(object workloads)")
        if used_ != len(x_):
            rec.violation("C02", f"{kind}:consumed!=written", f"[after {steps}] _build consumed {used_} bytes of a {len(x_)}-byte encoding",
                          dict(case, steps=list(steps)))

    steps = []
    # ---- starting block -----------------------------------------------------------------------
    if kind == "emg":
        blk = tdfEMG.EMG(1000, n)
    elif kind == "platCal":
        blk = None
    else:
        blk = tdfForcePlatformsData.ForcePlatformsDataBlock(0.0, 100, n)
    k0 = rng.randint(1, 3)
    if start == "constructor-filled" and kind == "platCal":
        its = [_mk_item(rng, kind, n) for _ in range(k0)]
        blk = tdfForcePlatformsCalibration.ForcePlatformsCalibrationDataBlock(platforms=list(its))
        steps.append(f"ctor(platforms={k0})")
        ch, items, err = observed_pairs(kind, blk)
        rec.count("oracle:C15.after-constructor")
        if err:
            V("constructor-filled:channel-list-and-items-disagree", err)
            return
        if ident(items) != ident(its):
            V("constructor-filled:items-lost", "items differ from those given")
            return
        if len(set(ch)) != len(ch):
            V("constructor-filled:duplicate-channel", f"{ch}")
            return
        shadow = list(zip(ch, items))
    else:
        if kind == "platCal":
            blk = tdfForcePlatformsCalibration.ForcePlatformsCalibrationDataBlock()
        if start != "empty":
            chs = gen.rchannels(rng, k0, hi=20000)
            for c in chs:
                it = _mk_item(rng, kind, n)
                (blk.addSignal if kind == "emg" else blk.add_platform)(it, c)
                shadow.append((c, it))
            steps.append(f"prefill{chs}")
        if start == "decoded":
            x = lib.enc(blk)
            blk, _ = lib.dec(kind, lib.fmt_of(blk), x)
            ch, items, err = observed_pairs(kind, blk)
            steps.append("decode")
            if err or ch != [c for c, _ in shadow]:
                V("decoded:pairs-differ", err or f"{ch} != {[c for c, _ in shadow]}")
                return
            shadow = list(zip(ch, items))
    # ---- operations -----------------------------------------------------------------------------
    for _ in range(length):
        used = [c for c, _ in shadow]
        r = rng.random()
        err = None
        exact = True
        if r < 0.30:  # add, automatic channel
            it = _mk_item(rng, kind, n)
            steps.append("add(auto)")
            try:
                (blk.addSignal if kind == "emg" else blk.add_platform)(it)
            except Exception as e:
                err = e
            if err is None:
                ch, items, oerr = observed_pairs(kind, blk)
                if oerr:
                    V("add-auto:channel-list-and-items-disagree", oerr); return
                if ident(items[:-1]) != ident([i for _, i in shadow]) or items[-1] is not it:
                    V("add-auto:items", "item list is not previous + new item"); return
                if ch[:-1] != used:
                    V("add-auto:existing-channels-changed", f"{ch[:-1]} != {used}"); return
                rec.count("oracle:C15.auto-channel-unused")
                if ch[-1] in used:
                    V("add-auto:channel-already-in-use", f"assigned {ch[-1]}, in use {used}"); return
                shadow.append((ch[-1], it))
                continue
            rec.count("c15:auto-add-refused(not judged)")   # neither the refusal nor its exception type is pinned down
        elif r < 0.55:  # add, explicit channel
            it = _mk_item(rng, kind, n)
            if shadow and rng.random() < 0.15:
                it = rng.choice(shadow)[1]       # an item object that is in the block already, bound once more
            taken = bool(used) and rng.random() < 0.4
            hi = 65000 if (kind == "platData" and rng.random() < 0.3) else 60   # unsigned 16-bit field for platform data
            c = rng.choice(used) if taken else next(x for x in (rng.randint(0, hi) for _ in range(999)) if x not in used)
            steps.append(f"add(ch={c}{' taken' if taken else ''})")
            try:
                (blk.addSignal if kind == "emg" else blk.add_platform)(it, c)
            except Exception as e:
                err = e
            rec.count("oracle:C15.explicit-channel")
            if taken:
                if err is None:
                    V("add-explicit:taken-channel-accepted", f"channel {c} already in {used}"); return
                if not isinstance(err, ValueError):
                    V("add-explicit:taken-channel-non-ValueError", f"{type(err).__name__}: {err}"); return
            else:
                if err is not None:
                    V("add-explicit:free-channel-refused", f"channel {c}: {type(err).__name__}: {err}"); return
                shadow.append((c, it))
        elif r < 0.80 and shadow and kind != "platData":  # remove
            if kind == "emg":
                labels = [i.label for _, i in shadow]
                lab = rng.choice(labels + ["no-such-label"])
                steps.append(f"removeSignal({lab!r})")
                try:
                    blk.removeSignal(lab)
                except Exception as e:
                    err = e
                rec.count("oracle:C15.remove")
                if lab in labels:
                    if err is not None:
                        V("remove-by-label:refused", f"{type(err).__name__}: {err}"); return
                    shadow.pop(labels.index(lab))
                elif err is None:
                    V("remove-by-label:absent-label-accepted", lab); return
            else:
                how = rng.choice(["index", "item", "bulk", "bad-index", "foreign-item"])
                rec.count("oracle:C15.remove")
                if how == "index":
                    i = rng.randrange(len(shadow))
                    arg = i - len(shadow) if rng.random() < 0.3 else i     # negative indices count from the end
                    steps.append(f"remove_platform({arg})")
                    try:
                        blk.remove_platform(arg)
                    except Exception as e:
                        V("remove-by-index:refused", f"{type(e).__name__}: {e}"); return
                    shadow.pop(i)
                elif how == "item":
                    i = rng.randrange(len(shadow)); steps.append(f"remove_platform(item#{i})")
                    tgt = shadow[i][1]
                    try:
                        blk.remove_platform(tgt)
                    except Exception as e:
                        V("remove-by-item:refused", f"{type(e).__name__}: {e}"); return
                    # equality-based search may legitimately hit an earlier equal item; accept the first equal one
                    j = next(k for k, (_, it_) in enumerate(shadow) if it_ is tgt or it_ == tgt)
                    shadow.pop(j)
                elif how == "bulk":
                    idx = sorted(rng.sample(range(len(shadow)), rng.randint(1, len(shadow))), reverse=True)
                    tg = [shadow[i][1] for i in idx]
                    steps.append(f"remove_platforms(items{idx})")
                    try:
                        blk.remove_platforms(tg)
                    except Exception as e:
                        V("remove-bulk:refused", f"{type(e).__name__}: {e}"); return
                    for t_ in tg:
                        j = next(k for k, (_, it_) in enumerate(shadow) if it_ is t_ or it_ == t_)
                        shadow.pop(j)
                elif how == "bad-index":
                    steps.append("remove_platform(len+2)")
                    try:
                        blk.remove_platform(len(shadow) + 2)
                        V("remove-by-index:out-of-range-accepted", ""); return
                    except Exception:
                        pass
                else:
                    steps.append("remove_platform(foreign)")
                    foreign = _mk_item(rng, kind, n)
                    foreign.label = "certainly-not-in-the-block-" + str(rng.random())
                    try:
                        blk.remove_platform(foreign)
                        V("remove-by-item:foreign-item-accepted", ""); return
                    except Exception:
                        pass
        elif r < 0.92 and kind != "emg":  # bulk add / bulk assignment
            k = rng.randint(1, 3)
            its = [_mk_item(rng, kind, n) for _ in range(k)]
            if kind == "platCal" and rng.random() < 0.5:
                withch = rng.random() < 0.6
                chs = None
                if withch:
                    chs = []
                    while len(chs) < k:
                        c = rng.randint(0, 80)
                        if c not in used and c not in chs:
                            chs.append(c)
                if withch and rng.random() < 0.2:
                    # channel list and platform list of different lengths: nothing says whether that is refused or the
                    # longer one is cut - but afterwards channels and platforms still pair up one to one
                    extra_c = [c_ for c_ in range(81, 90)][: rng.randint(1, 3)]
                    if rng.random() < 0.5:
                        chs_u = chs + extra_c
                    else:
                        chs_u = chs[:-1]
                    steps.append(f"add_platforms({k} platforms, {len(chs_u)} channels)")
                    try:
                        blk.add_platforms(its, chs_u)
                    except Exception:
                        pass
                    ch, items, oerr = observed_pairs(kind, blk)
                    rec.count("oracle:C15.bulk-add-unequal-lengths-keeps-pairing")
                    if oerr:
                        V("bulk-add:channel-list-and-items-disagree", "after add_platforms with lists of different lengths: " + oerr); return
                    if len(set(ch)) != len(ch):
                        V("bulk-add:duplicate-channel", f"{ch}"); return
                    shadow = list(zip(ch, items))
                    continue
                form = rng.choice(["lists", "lists", "generator", "iter", "tuple"])
                steps.append(f"add_platforms({k} as {form}, channels={chs})")
                pl_arg = {"lists": lambda: its, "generator": lambda: (x_ for x_ in its), "iter": lambda: iter(its), "tuple": lambda: tuple(its)}[form]()
                try:
                    blk.add_platforms(pl_arg, chs) if withch else blk.add_platforms(pl_arg)
                except Exception as e:
                    V("bulk-add:refused", f"{type(e).__name__}: {e}"); return
                ch, items, oerr = observed_pairs(kind, blk)
                if oerr:
                    V("bulk-add:channel-list-and-items-disagree", oerr); return
                if withch and ch[-k:] != chs:
                    V("bulk-add:explicit-channels-not-honoured", f"{ch[-k:]} != {chs}"); return
                if ident(items[-k:]) != ident(its) or ch[:-k] != used:
                    V("bulk-add:pairs", "previous pairs changed or items not appended in order"); return
                if len(set(ch)) != len(ch):
                    V("bulk-add:duplicate-channel", f"{ch}"); return
                shadow = list(zip(ch, items))
                continue
            elif kind == "platCal":
                chs = gen.rchannels(rng, k, hi=20000)
                bad_at = rng.randrange(k) if rng.random() < 0.3 and k > 1 else None
                pairs = [(c, it) for c, it in zip(chs, its)]
                if bad_at is not None and bad_at > 0:
                    pairs[bad_at] = (pairs[0][0], pairs[bad_at][1])  # duplicate channel inside the list
                # the documented argument is any iterable of (channel, platform) pairs: list, tuple, zip, generator
                form = rng.choice(["list", "list", "tuple", "zip", "generator", "iter", "map"])
                arg = {"list": lambda: list(pairs), "tuple": lambda: tuple(pairs),
                       "zip": lambda: zip([c for c, _ in pairs], [p_ for _, p_ in pairs]),
                       "generator": lambda: ((c, p_) for c, p_ in pairs), "iter": lambda: iter(pairs),
                       "map": lambda: map(lambda cp: (cp[0], cp[1]), pairs)}[form]()
                steps.append(f"platforms=<{form}>{[c for c, _ in pairs]}{' (dup)' if bad_at else ''}")
                try:
                    blk.platforms = arg
                except Exception as e:
                    err = e
                ch, items, oerr = observed_pairs(kind, blk)
                rec.count("oracle:C15.bulk-assignment")
                if oerr:
                    V("bulk-assign:channel-list-and-items-disagree", oerr); return
                if err is None:
                    if bad_at:
                        V("bulk-assign:duplicate-channel-accepted", f"{[c for c, _ in pairs]}"); return
                    if ch != [c for c, _ in pairs] or ident(items) != ident(its):
                        V("bulk-assign:pairs-not-installed", f"{ch} != {[c for c, _ in pairs]}"); return
                if len(set(ch)) != len(ch):
                    V("bulk-assign:duplicate-channel", f"{ch}"); return
                shadow = list(zip(ch, items))  # after a refused assignment only the invariants are demanded
                continue
            else:  # platData: platforms = [...]
                if rng.random() < 0.3:   # a list that will be refused part-way (an object that is not a platform)
                    its = list(its)
                    its.insert(rng.randint(1, len(its)), rng.choice([None, "platform", 7]))
                    steps.append(f"platforms=<{k} items + a non-platform>")
                else:
                    steps.append(f"platforms=<{k} items>")
                form = rng.choice(["list", "list", "tuple", "generator", "iter"])
                steps[-1] += f" as {form}"
                try:
                    blk.platforms = {"list": lambda: its, "tuple": lambda: tuple(its), "generator": lambda: (x for x in its),
                                     "iter": lambda: iter(its)}[form]()
                except Exception as e:
                    err = e
                its = [x for x in its if isinstance(x, tdfForcePlatformsData.ForcePlatformData)]
                ch, items, oerr = observed_pairs(kind, blk)
                rec.count("oracle:C15.bulk-assignment")
                if oerr:
                    V("bulk-assign:channel-list-and-items-disagree", oerr); return
                if len(set(ch)) != len(ch):
                    V("bulk-assign:duplicate-channel", f"{ch}"); return
                old = {}
                for c, i in shadow:            # an item object may be bound more than once (several channels)
                    old.setdefault(id(i), []).append(c)
                for c, it in zip(ch, items):
                    if id(it) in old:
                        if c in old[id(it)]:
                            old[id(it)].remove(c)
                        elif old[id(it)]:
                            V("bulk-assign:surviving-item-changed-channel", f"{old[id(it)]} -> {c}"); return
                if err is None and not all(any(it is x for x in items) for it in its):
                    V("bulk-assign:items-missing", "assigned items are not all in the block"); return
                if kind == "platData":
                    pass
                shadow = list(zip(ch, items))
                continue
        else:  # encode -> decode -> continue on the decoded block
            steps.append("encode/decode")
            ch, items, oerr = observed_pairs(kind, blk)
            if oerr:
                V("channel-list-and-items-disagree", oerr); return
            x = lib.enc(blk)
            size_oracle()
            blk2, _ = lib.dec(kind, lib.fmt_of(blk), x)
            ch2, items2, oerr = observed_pairs(kind, blk2)
            rec.count("oracle:C15.roundtrip-pairs")
            if oerr or ch2 != ch:
                V("decoded:pairs-differ", oerr or f"{ch2} != {ch}"); return
            v1 = [lib.view_item(kind, i) for i in items]
            v2 = [lib.view_item(kind, i) for i in items2]
            if rc.spec_diff(v1, v2):
                rec.count("c15:roundtrip-item-content-differs(C01-territory)")
            blk, shadow = blk2, list(zip(ch2, items2))
            continue
        # ---- exact shadow comparison after single operations ------------------------------------
        ch, items, oerr = observed_pairs(kind, blk)
        rec.count("oracle:C15.pairs==shadow")
        if oerr:
            V("channel-list-and-items-disagree", oerr); return
        if ch != [c for c, _ in shadow] or ident(items) != ident([i for _, i in shadow]):
            V("pairs-differ-from-history",
              f"observed channels {ch} / {len(items)} items; history says {[c for c, _ in shadow]}"); return
        if len(set(ch)) != len(ch):
            V("duplicate-channel", f"{ch}"); return


def c15_boundary_channels(rec, rng, kind, case):
    """explicit channels at the ends of the field's range (no automatic add follows, so max+1 cannot leave the field):
    accepted, kept with their items, and still there after a round trip"""
    n = 3
    top = 65535 if kind == "platData" else 32767
    for chs in ([top], [0, top], [top, 0, 1], [top - 1, top], [1, top, top - 1, 0]):
        if kind == "emg":
            blk = tdfEMG.EMG(1000, n)
        elif kind == "platCal":
            blk = tdfForcePlatformsCalibration.ForcePlatformsCalibrationDataBlock()
        else:
            blk = tdfForcePlatformsData.ForcePlatformsDataBlock(0.0, 100, n)
        its = []
        rec.count("oracle:C15.boundary-channels")
        for c in chs:
            it = _mk_item(rng, kind, n)
            try:
                (blk.addSignal if kind == "emg" else blk.add_platform)(it, c)
            except Exception as e:
                rec.violation("C15", f"{kind}:add-explicit:free-channel-refused",
                              f"channel {c} (free, inside the {'unsigned' if kind == 'platData' else 'signed'} 16-bit field) refused: "
                              f"{type(e).__name__}: {e}", dict(case, channels=chs))
                return
            its.append(it)
        for where in ("built", "decoded"):
            ch, items, err = observed_pairs(kind, blk)
            if err or ch != chs or (where == "built" and ident(items) != ident(its)):
                rec.violation("C15", f"{kind}:add-explicit:pairs-differ-from-history", f"[{where}] channels {ch} for requested {chs}: {err}",
                              dict(case, channels=chs))
                return
            blk, _ = lib.dec(kind, lib.fmt_of(blk), lib.enc(blk))


def c15_platcal_epilogue(rec, rng, case):
    """platform calibration: (a) bulk add with explicit channels and None mixed in one list; (b) bulk assignment of
    iterables derived from the block itself (the block, a filtering generator over it, its platforms list, reversed,
    a view that asks the block only when iterated).  Own RNG: the main sequences are not shifted."""
    kind = "platCal"
    PC = tdfForcePlatformsCalibration.ForcePlatformsCalibrationDataBlock
    blk = PC()
    steps = []

    def V(key, msg):
        rec.violation("C15", f"{kind}:{key}", f"[{steps}] {msg}", dict(case, steps=list(steps), epilogue=True))
    used, items = [], []
    for _batch in range(rng.randint(1, 3)):
        k = rng.randint(1, 4)
        its = [_mk_item(rng, kind, 1) for _ in range(k)]
        chs = []
        for _ in range(k):
            if rng.random() < 0.5:
                chs.append(None)
            else:
                # explicit channels sit right above the highest channel in use, where an automatic choice would land too
                c = (max(used + [x for x in chs if x is not None] + [-1]) + rng.choice([1, 1, 2, 3]))
                chs.append(c)
        if all(c is None for c in chs):
            chs[rng.randrange(k)] = max(used + [-1]) + 1
        steps.append(f"add_platforms({k}, channels={chs})")
        refused = None
        try:
            blk.add_platforms(its, chs)
        except ValueError as e:
            # an automatic choice earlier in the list may take the channel a later explicit entry names: "refused with
            # ValueError if taken" - then only the invariants are demanded (whether the earlier ones stay is not said)
            refused = e
            rec.count("c15:bulk-add-mixed:refused-with-ValueError(invariants only)")
        except Exception as e:
            V("bulk-add:refused", f"mixed explicit / automatic channels: {type(e).__name__}: {e}"); return
        ch, got, oerr = observed_pairs(kind, blk)
        rec.count("oracle:C15.bulk-add-mixed-explicit-and-automatic")
        if oerr:
            V("bulk-add:channel-list-and-items-disagree", oerr); return
        if len(set(ch)) != len(ch):
            V("bulk-add:duplicate-channel", f"{ch}"); return
        if refused is not None:
            if ch[:len(used)] != used or ident(got[:len(items)]) != ident(items):
                V("bulk-add:pairs", "previous pairs changed by a refused bulk add"); return
            used, items = list(ch), list(got)
            continue
        if ident(got) != ident(items + its) or ch[:len(used)] != used:
            V("bulk-add:pairs", "previous pairs changed or items not appended in order"); return
        for c_want, c_got in zip(chs, ch[len(used):]):
            if c_want is not None and c_want != c_got:
                V("bulk-add:explicit-channels-not-honoured", f"{ch[len(used):]} for {chs}"); return
        used, items = list(ch), list(got)
    for _round in range(2):
        form = rng.choice(["block", "genexp-filter", "platforms-list", "reversed", "lazy-view", "iter(block)"])
        pairs = list(zip(used, items))
        keep = [i for i in range(len(pairs)) if rng.random() < 0.7]

        class _Lazy:
            def __iter__(self_):
                return iter(blk.platforms)
        want, arg = {
            "block": (pairs, blk), "iter(block)": (pairs, iter(blk)), "platforms-list": (pairs, blk.platforms),
            "reversed": (pairs[::-1], reversed(blk.platforms)), "lazy-view": (pairs, _Lazy()),
            "genexp-filter": ([pairs[i] for i in keep], ((c, p) for i, (c, p) in enumerate(blk) if i in keep)),
        }[form]
        steps.append(f"platforms=<{form} of the block's own pairs>")
        try:
            blk.platforms = arg
        except Exception as e:
            V("bulk-assign:valid-pairs-refused", f"{form}: {type(e).__name__}: {e}"); return
        ch, got, oerr = observed_pairs(kind, blk)
        rec.count("oracle:C15.bulk-assignment-from-own-pairs")
        if oerr:
            V("bulk-assign:channel-list-and-items-disagree", oerr); return
        if ch != [c for c, _ in want] or ident(got) != ident([p for _, p in want]):
            V("bulk-assign:pairs-not-installed", f"{form}: channels {ch} installed, {[c for c, _ in want]} assigned"); return
        used, items = list(ch), list(got)


def shard_c15(desc, rec):
    rng = random.Random(desc["seed"] * 73 + desc.get("shard", 0))
    for i in range(desc["n"]):
        kind = ["emg", "platCal", "platData"][i % 3]
        start = rng.choice(["empty", "prefilled", "decoded"] + (["constructor-filled"] if kind == "platCal" else []))
        length = rng.randint(5, 25)
        case = {"driver": "c15", "kind": kind, "start": start, "seed": desc["seed"], "shard": desc.get("shard", 0), "index": i}
        rec.case(case, True, sample=case if i % 150 == 0 else None)
        rec.count(f"c15:{kind}:{start}")
        c15_sequence(rec, rng, kind, start, length, case)
        if kind == "platCal":
            c15_platcal_epilogue(rec, random.Random(desc["seed"] * 6151 + desc.get("shard", 0) * 193 + i), case)
    brng = random.Random(desc["seed"] * 73 + 5)
    for kind in ("emg", "platCal", "platData"):
        c15_boundary_channels(rec, brng, kind, {"driver": "c15", "kind": kind, "seed": desc["seed"], "shard": desc.get("shard", 0),
                                                 "index": 0, "boundary": True})


# ================================================================================================
# C16
# ================================================================================================
def _track(rng, kind, n):
    w = {"data3D": 3, "emg": 1, "force3D": 9}[kind]
    return lib.build_item(kind, {"label": gen.rlabel(rng), "frames": gen.rframes(rng, _mask(rng, n), w)}, {})


class _Boom(Exception):
    pass


def _malformed(kind):
    """a track object of the right class whose frame count cannot even be asked (its data is a plain list)"""
    if kind == "data3D":
        return tdfData3D.MarkerTrack("malformed", [[1.0, 2.0, 3.0]])
    if kind == "emg":
        return tdfEMG.EMGTrack("malformed", [1.0, 2.0])
    t = tdfForce3D.ForceTorqueTrack("malformed", np.zeros((1, 3)), np.zeros((1, 3)), np.zeros((1, 3)))
    t.application_point = [[0.0, 0.0, 0.0]]
    return t


def _bad(rng, kind, n):
    """(object, why) that must be refused"""
    r = rng.random()
    if r < 0.08:
        return _malformed(kind), "malformed-track"
    if r < 0.45:
        m = n
        while m == n:
            m = max(0, n + rng.choice([-3, -2, -1, 1, 2, 5, 40])) if rng.random() < 0.8 else rng.choice([0, 1, n * 2])
        return _track(rng, kind, m), f"wrong-length({m}!={n})"
    if r < 0.7:
        return rng.choice([None, "track", 3.5, np.zeros((n, 3), dtype=np.float32), {"label": "x"}, object()]), "not-a-track"
    other = rng.choice([k for k in ("data3D", "emg", "force3D") if k != kind])
    return _track(rng, other, n), f"track-of-{other}"


def observe_tracks(kind, blk, probe_labels=()):
    it = list(blk)
    if kind != "emg":
        tr = list(blk.tracks)
        if ident(tr) != ident(it) or len(blk) != len(it):
            return it, "tracks property, iteration and len disagree"
    # what the block answers to lookups by label is part of what it contains
    labs = [t.label for t in it if isinstance(getattr(t, "label", None), str)]
    if len(labs) == len(it):
        for lb in list(dict.fromkeys(labs))[:4]:
            try:
                hit, inn = blk[lb], lb in blk
            except Exception as e:
                return it, f"lookup of the held label {lb[:20]!r} raises {type(e).__name__}"
            if hit is not it[labs.index(lb)] or not inn:
                return it, f"lookup of the held label {lb[:20]!r} does not give the first track carrying it"
        for lb in probe_labels:
            if lb in labs:
                continue
            try:
                blk[lb]
                return it, f"lookup by {lb[:20]!r} returns a track although the block holds none with that label"
            except KeyError:
                pass
            except Exception as e:
                return it, f"lookup of the absent label {lb[:20]!r} raises {type(e).__name__}"
            try:
                if lb in blk:
                    return it, f"{lb[:20]!r} is reported as contained although the block holds no such track"
            except Exception:
                pass
    return it, None


def frames_of(kind, tr):
    return tr.nSamples if kind == "emg" else tr.nFrames


def c16_sequence(rec, rng, kind, length, case):
    n = rng.randint(1, 50) if rng.random() < 0.93 else 0      # blocks of no frames at all are blocks too
    steps = []
    if kind == "data3D":
        blk = tdfData3D.Data3D(100, n, np.ones(3, np.float32), np.eye(3, dtype=np.float32), np.zeros(3, np.float32))
    elif kind == "force3D":
        blk = tdfForce3D.ForceTorque3D(100, n, np.ones(3, np.float32), np.eye(3, dtype=np.float32), np.zeros(3, np.float32))
    else:
        blk = tdfEMG.EMG(1000, n)
    add = blk.addSignal if kind == "emg" else blk.add_track
    cls = {"data3D": tdfData3D.MarkerTrack, "force3D": tdfForce3D.ForceTorqueTrack, "emg": tdfEMG.EMGTrack}[kind]
    shadow = []
    used_channels = set()
    # a sibling block with a different number of frames: one caller-owned list is (validly) assigned to both, after
    # which valid additions to either must not surface in the other
    sib, sib_n, sib_shadow = None, n + rng.randint(1, 3), []
    if kind != "emg":
        sib = type(blk)(100, sib_n, np.ones(3, np.float32), np.eye(3, dtype=np.float32), np.zeros(3, np.float32))

    def V(key, msg):
        rec.violation("C16", f"{kind}:{key}", f"[n={n}, after {steps}] {msg}", dict(case, steps=list(steps)))

    def sibling_invariant():
        if sib is None:
            return True
        cur_s, err_s = observe_tracks(kind, sib)
        rec.count("oracle:C16.sibling-invariant")
        if err_s:
            V("accessors-disagree", "sibling: " + err_s); return False
        for t_ in cur_s:
            if frames_of(kind, t_) != sib_n:
                V("wrong-length-inside", f"a second block of {sib_n} frames, assigned the same caller list, now holds a "
                  f"track of {frames_of(kind, t_)} frames"); return False
        if ident(cur_s) != ident(sib_shadow):
            V("tracks-differ-from-history", f"second block: {len(cur_s)} tracks, its own history says {len(sib_shadow)}"); return False
        return True

    refused_labels = []

    def invariant():
        cur, err = observe_tracks(kind, blk, tuple(refused_labels[-6:]))
        rec.count("oracle:C16.invariant")
        if err:
            V("accessors-disagree", err); return None
        for t in cur:
            if not isinstance(t, cls):
                V("wrong-kind-inside", f"block holds {type(t).__name__}"); return None
            if frames_of(kind, t) != n:
                V("wrong-length-inside", f"block of {n} frames holds a track of {frames_of(kind, t)}"); return None
        return cur
    for _ in range(rng.randint(0, 5)):
        t = _track(rng, kind, n); add(t); shadow.append(t)
    for _ in range(length):
        r = rng.random()
        chan = {}
        if kind == "emg" and rng.random() < 0.5:   # explicit, unused acquisition channel: strictly decreasing from
            # 30000, so it can never meet an automatically assigned one (those are max+1)
            chan = {"channel": 30000 - len(used_channels)}
        if r < 0.3:
            t = _track(rng, kind, n); steps.append(f"add(valid{', channel' if chan else ''})")
            try:
                add(t, **chan)
            except Exception as e:
                V("valid-track-refused", f"{type(e).__name__}: {e}"); return
            if chan:
                used_channels.add(chan["channel"])
            shadow.append(t)
        elif r < 0.6:
            obj, why = _bad(rng, kind, n); steps.append(f"add({why}{', channel' if chan else ''})")
            rec.count("oracle:C16.bad-add-refused")
            try:
                add(obj, **chan)
                V(f"add:{why.split('(')[0]}:accepted", f"{why} was accepted{' (explicit channel)' if chan else ''}"); return
            except Exception:
                pass
        elif kind != "emg" and r < 0.63:
            # one caller-owned list, valid for both blocks (empty, so any frame count fits), assigned to both
            shared_list = []
            steps.append("tracks=<L>; sibling.tracks=<same L> (L empty)")
            try:
                blk.tracks = shared_list
                sib.tracks = shared_list
            except Exception as e:
                V("assign:valid-list-refused", f"empty list: {type(e).__name__}: {e}"); return
            shadow, sib_shadow = [], []
            for _q in range(rng.randint(0, 2)):
                ts = lib.build_item(kind, {"label": "s", "frames": gen.rframes(rng, [True] * sib_n, {"data3D": 3, "force3D": 9}[kind])}, {})
                steps.append("sibling.add(valid)")
                try:
                    sib.add_track(ts)
                except Exception as e:
                    V("valid-track-refused", f"sibling: {type(e).__name__}: {e}"); return
                sib_shadow.append(ts)
        elif kind != "emg" and r < 0.66 and shadow:
            # a list of *other objects with equal content* (copies): the assignment installs exactly those objects
            import copy as _copy
            want = [_copy.deepcopy(t_) for t_ in blk.tracks]
            if rng.random() < 0.5 and want:      # ... or copies that are equal only within a float tolerance / up to -0.0
                t0 = want[rng.randrange(len(want))]
                arr0 = t0.data if kind == "data3D" else t0.force
                if arr0.size and arr0.flags.writeable:
                    v0 = arr0.flat[0]
                    arr0.flat[0] = -0.0 if v0 == 0 else v0 * (1 + 1e-7)
            steps.append("tracks=<equal copies of own tracks>")
            try:
                blk.tracks = want
            except Exception as e:
                V("assign:valid-list-refused", f"equal copies: {type(e).__name__}: {e}"); return
            cur, oerr = observe_tracks(kind, blk)
            rec.count("oracle:C16.assignment-of-equal-copies")
            if ident(cur) != ident(want):
                V("assign:installed-list-differs", "a list of equal-content copies was assigned but the block still holds the old objects"); return
            shadow = list(want)
        elif kind != "emg" and r < 0.72 and shadow:
            # the assigned iterable is derived lazily from the block's own list
            how = rng.choice(["same-list", "reversed", "generator-filter", "slice-view", "block-itself", "lazy-view-of-block"])
            steps.append(f"tracks=<{how} of own tracks>")
            own = blk.tracks
            if how == "same-list":
                want, it = list(own), own
            elif how == "reversed":
                want, it = list(reversed(own)), reversed(own)
            elif how == "block-itself":          # a block is an iterable of its tracks
                want, it = list(own), blk
            elif how == "lazy-view-of-block":    # an iterable that asks the block for its tracks only when iterated
                class _Lazy:
                    def __init__(self, b_): self.b = b_
                    def __iter__(self): return iter(self.b.tracks)
                want, it = list(own), _Lazy(blk)
            elif how == "generator-filter":
                keep = set(ident(own)[::2])
                want, it = [t_ for t_ in own if id(t_) in keep], (t_ for t_ in own if id(t_) in keep)
            else:
                want, it = list(own[1:]), iter(own[1:])
            try:
                blk.tracks = it
            except Exception as e:
                V("assign:valid-list-refused", f"{how}: {type(e).__name__}: {e}"); return
            cur, oerr = observe_tracks(kind, blk)
            rec.count("oracle:C16.assignment-from-own-list")
            if ident(cur) != ident(want):
                V("assign:installed-list-differs", f"{how}: {len(cur)} tracks installed, {len(want)} assigned"); return
            shadow = list(want)
        elif kind != "emg":
            k = rng.randint(0, 5)
            lst = [_track(rng, kind, n) for _ in range(k)]
            bad_at = None
            if rng.random() < 0.55 and k > 0:
                bad_at = rng.randrange(k)
                lst[bad_at], why = _bad(rng, kind, n)
                if n > 1 and shadow and len(lst) == len(shadow) and rng.random() < 0.3:
                    # same labels as the current tracks, one element a 1-frame track that equals (by broadcasting,
                    # within tolerance) a constant current track: still a wrong-length track
                    import copy as _copy
                    lst = [_copy.deepcopy(t_) for t_ in shadow]
                    w = {"data3D": 3, "force3D": 9}[kind]
                    const = lib.build_item(kind, {"label": shadow[bad_at].label, "frames": [[1.5] * w] * n}, {})
                    shadow[bad_at] = const
                    blk.tracks = list(shadow)
                    lst = [_copy.deepcopy(t_) for t_ in shadow]
                    lst[bad_at] = lib.build_item(kind, {"label": const.label, "frames": [[1.5] * w]}, {})
            as_gen = rng.random() < 0.3
            raising_gen = bad_at is None and k > 0 and rng.random() < 0.15
            if raising_gen:            # the iterable itself fails part-way with an arbitrary exception
                cut = rng.randrange(k)
                exc = rng.choice([_Boom, KeyError, RuntimeError, AttributeError, StopAsyncIteration])

                def genr(lst=lst, cut=cut, exc=exc):
                    for q, x in enumerate(lst):
                        if q == cut:
                            raise exc("iterable failed")
                        yield x
                bad_at = cut
            steps.append(f"tracks=<{k} items{', bad at %d' % bad_at if bad_at is not None else ''}{', generator' if as_gen else ''}"
                         f"{', raising iterable' if raising_gen else ''}>")
            err = None
            try:
                if raising_gen:
                    blk.tracks = genr()
                else:
                    blk.tracks = (x for x in lst) if as_gen else (lst if rng.random() < 0.5 else tuple(lst))
            except Exception as e:
                err = e
            cur, oerr = observe_tracks(kind, blk)
            rec.count("oracle:C16.assignment-all-or-nothing")
            if bad_at is not None:
                refused_labels.extend(getattr(x_, "label", None) for x_ in lst if isinstance(getattr(x_, "label", None), str))
                if err is None:
                    V("assign:invalid-list-accepted", f"element {bad_at} invalid"); return
                if ident(cur) != ident(shadow):
                    V("assign:failed-assignment-changed-tracks",
                      f"{len(cur)} tracks after the failed assignment, {len(shadow)} before (same objects: "
                      f"{ident(cur) == ident(shadow)})"); return
            else:
                if err is not None:
                    V("assign:valid-list-refused", f"{type(err).__name__}: {err}"); return
                if ident(cur) != ident(lst):
                    V("assign:installed-list-differs", f"{len(cur)} tracks installed, {len(lst)} given"); return
                shadow = list(lst)
        else:
            continue
        cur = invariant()
        if cur is None:
            return
        if ident(cur) != ident(shadow):
            V("tracks-differ-from-history", f"{len(cur)} tracks, history says {len(shadow)}"); return
        if not sibling_invariant():
            return


def c16_foreign_iterables(rec, rng, kind, case):
    """Assigned iterables that are neither lists of fresh tracks nor views of the block's own list: ANOTHER block of the
    same class (a block iterates over its tracks) with the same or another number of frames, the other block's own list
    object, and lists of *labels* of the current tracks (strings are not tracks).  Own RNG: the main sequences are not
    shifted by this epilogue."""
    if kind == "emg":
        return
    n = rng.randint(1, 12)
    cls = type(_blank(kind, n))
    blk = _blank(kind, n)
    for _ in range(rng.randint(0, 3)):
        blk.add_track(_track(rng, kind, n))
    shadow = list(blk.tracks)
    steps = []

    def V(key, msg):
        rec.violation("C16", f"{kind}:{key}", f"[n={n}, {len(shadow)} tracks, {steps}] {msg}", dict(case, steps=list(steps), epilogue=True))
    for _step in range(rng.randint(2, 5)):
        r = rng.random()
        if r < 0.6:
            same = rng.random() < 0.4
            m = n if same else max(0, n + rng.choice([-2, -1, 1, 2, 7]))
            if m == n:
                same = True
            other = _blank(kind, m)
            k = rng.randint(0 if same else 1, 3)
            for _ in range(k):
                other.add_track(_track(rng, kind, m))
            form = rng.choice(["block", "block.tracks", "iter(block)", "tuple(block)"])
            it = {"block": other, "block.tracks": other.tracks, "iter(block)": iter(other), "tuple(block)": tuple(other)}[form]
            want = list(other.tracks)
            steps.append(f"tracks=<{form} of another {cls.__name__} with {m} frames, {k} tracks>")
            err = None
            try:
                blk.tracks = it
            except Exception as e:
                err = e
            cur, oerr = observe_tracks(kind, blk)
            rec.count("oracle:C16.assignment-from-another-block")
            if oerr:
                V("accessors-disagree", oerr); return
            if same or k == 0:
                if err is not None:
                    V("assign:valid-list-refused", f"{form}: {type(err).__name__}: {err}"); return
                if ident(cur) != ident(want):
                    V("assign:installed-list-differs", f"{form}: {len(cur)} installed, {len(want)} assigned"); return
                shadow = list(want)
                if ident(list(other.tracks)) != ident(want):
                    V("assign:source-block-changed", f"{form}: the block assigned from lost or gained tracks"); return
            else:
                if err is None:
                    V("assign:invalid-list-accepted", f"{form}: tracks of {m} frames entered a block of {n} frames"); return
                if ident(cur) != ident(shadow):
                    V("assign:failed-assignment-changed-tracks", f"{form}: {len(cur)} tracks after, {len(shadow)} before"); return
        elif shadow:
            labs = [t.label for t in shadow]
            lst = list(reversed(labs)) if rng.random() < 0.5 else [rng.choice(labs) for _ in range(rng.randint(1, 3))]
            steps.append(f"tracks=<list of {len(lst)} labels of current tracks>")
            err = None
            try:
                blk.tracks = lst if rng.random() < 0.7 else tuple(lst)
            except Exception as e:
                err = e
            cur, oerr = observe_tracks(kind, blk)
            rec.count("oracle:C16.assignment-of-labels-refused")
            if err is None:
                V("assign:invalid-list-accepted", "a list of strings (labels of current tracks) was accepted"); return
            if ident(cur) != ident(shadow):
                V("assign:failed-assignment-changed-tracks", "labels: tracks changed by the refused assignment"); return
            try:
                blk.add_track(lst[0])
                V("add:not-a-track:accepted", "a label of a current track was accepted by add_track"); return
            except Exception:
                pass
            if ident(list(blk.tracks)) != ident(shadow):
                V("add:failed-add-changed-tracks", "label: tracks changed by the refused add"); return


def _blank(kind, n):
    c = tdfData3D.Data3D if kind == "data3D" else tdfForce3D.ForceTorque3D
    return c(100, n, np.ones(3, np.float32), np.eye(3, dtype=np.float32), np.zeros(3, np.float32))


def shard_c16(desc, rec):
    rng = random.Random(desc["seed"] * 79 + desc.get("shard", 0))
    for i in range(desc["n"]):
        kind = ["data3D", "force3D", "emg"][i % 3]
        case = {"driver": "c16", "kind": kind, "seed": desc["seed"], "shard": desc.get("shard", 0), "index": i}
        rec.case(case, True, sample=case if i % 200 == 0 else None)
        rec.count(f"c16:{kind}")
        c16_sequence(rec, rng, kind, rng.randint(4, 18), case)
        c16_foreign_iterables(rec, random.Random(desc["seed"] * 7919 + desc.get("shard", 0) * 104729 + i), kind, case)


# ================================================================================================
# C18
# ================================================================================================
LABEL_POOL = ["a", "A", " a", "a ", "", "dup", "dup", "Dup", "é", "É", "x" * 255, "b", "marker 1", "marker  1"]


class _Repr:
    """a key shown by its class name (blocks and items have long reprs)"""


def _foreign_keys(kind, blk):
    """objects of other types that look related: items of the OTHER block kinds, and whole blocks (the block itself too)"""
    z3 = np.zeros((2, 3), np.float32)
    its = {"data3D": tdfData3D.MarkerTrack("a", z3), "emg": tdfEMG.EMGTrack("a", np.zeros(2, np.float32)),
           "force3D": tdfForce3D.ForceTorqueTrack("a", z3, z3.copy(), z3.copy()),
           "events": tdfEvents.Event("a", [1.0], tdfEvents.EventsDataType.singleEvent)}
    out = tuple(v for k_, v in its.items() if k_ != kind)
    return out + (blk, tdfEvents.TemporalEventsData(), tdfEMG.EMG(1000, 2))


def c18_block(rec, rng, kind, case):
    k = rng.randint(0, 6)
    labels = [rng.choice(LABEL_POOL) for _ in range(k)]
    n = rng.randint(1, 6)
    if kind == "events":
        blk = tdfEvents.TemporalEventsData()
        for lb in labels:
            # an instant, no instant, or an instant that is not a number (an event object is an item whatever it holds)
            blk.events.append(tdfEvents.Event(lb, [1.0] if rng.random() < 0.5 else ([] if len(blk.events) % 2 else [float("nan")]),
                                              tdfEvents.EventsDataType.singleEvent))
    elif kind == "emg":
        blk = tdfEMG.EMG(1000, n)
        def msk():   # fully present, with gaps, or wholly missing tracks
            r_ = rng.random()
            return [True] * n if r_ < 0.5 else ([False] * n if r_ < 0.7 else gen.rmask(rng, n))
        chans = rng.sample(range(0, 60), len(labels)) if rng.random() < 0.5 else None   # explicit channels, any order
        for q_, lb in enumerate(labels):
            it_ = lib.build_item(kind, {"label": lb, "frames": gen.rframes(rng, msk(), 1)}, {})
            blk.addSignal(it_, channel=chans[q_]) if chans else blk.addSignal(it_)
    else:
        def msk():
            r_ = rng.random()
            return [True] * n if r_ < 0.5 else ([False] * n if r_ < 0.7 else gen.rmask(rng, n))
        w = 3 if kind == "data3D" else 9
        cls = tdfData3D.Data3D if kind == "data3D" else tdfForce3D.ForceTorque3D
        blk = cls(100, n, np.ones(3, np.float32), np.eye(3, dtype=np.float32), np.zeros(3, np.float32))
        for lb in labels:
            blk.add_track(lib.build_item(kind, {"label": lb, "frames": gen.rframes(rng, msk(), w)}, {}))
    if rng.random() < 0.3:
        blk, _ = lib.dec(kind, lib.fmt_of(blk), lib.enc(blk))

    def V(key, msg):
        rec.violation("C18", f"{kind}:{key}", f"[labels={labels}, edits={edits_done}] {msg}", dict(case, labels=labels, edits=list(edits_done)))
    edits_done = []
    for round_ in range(rng.choice([1, 2, 3])):
        if round_ > 0:
            # edit the block through its public interface, then every lookup must reflect the new state
            cur = list(blk)
            how = rng.choice(["remove", "append"]) if cur else "append"
            try:
                if how == "remove":
                    j = rng.randrange(len(cur))
                    if kind == "emg":
                        lab = cur[j].label
                        j = [c_.label for c_ in cur].index(lab)  # removeSignal drops the first signal with that label
                        blk.removeSignal(lab)
                    elif kind == "events":
                        blk.events.pop(j)
                    else:
                        blk.tracks = [c_ for i_, c_ in enumerate(cur) if i_ != j]
                    labels = [lb for i_, lb in enumerate(labels) if i_ != j]
                    edits_done.append(f"remove#{j}")
                else:
                    lb = rng.choice(LABEL_POOL)
                    if kind == "events":
                        blk.events.append(tdfEvents.Event(lb, [2.0]))
                    elif kind == "emg":
                        blk.addSignal(lib.build_item(kind, {"label": lb, "frames": gen.rframes(rng, [True] * n, 1)}, {}))
                    else:
                        w = 3 if kind == "data3D" else 9
                        blk.add_track(lib.build_item(kind, {"label": lb, "frames": gen.rframes(rng, [True] * n, w)}, {}))
                    labels = labels + [lb]
                    edits_done.append(f"append({lb!r})")
            except Exception as e:
                rec.count(f"c18:edit-refused:{type(e).__name__}")
                return
            k = len(labels)
            rec.count("c18:lookups-after-edit")
        if not _c18_probe(rec, rng, kind, blk, labels, k, V):
            return


def _c18_probe(rec, rng, kind, blk, labels, k, V):
    x0 = lib.enc(blk)
    items = list(blk)
    ids0 = ident(items)
    rec.count("oracle:C18.len==iter")
    if len(blk) != len(items) or len(items) != k:
        V("len!=iteration", f"len()={len(blk)}, iteration yields {len(items)}, {k} items were added"); return False
    labs = [i.label for i in items]
    # integer keys
    for i in range(-k - 2, k + 3):
        rec.count("oracle:C18.index")
        try:
            got = blk[i]; err = None
        except Exception as e:
            got, err = None, e
        if -k <= i < k:
            if err is not None:
                V("valid-index-raises", f"[{i}] raised {type(err).__name__}"); return False
            if got is not items[i]:
                V("index-returns-other-item", f"[{i}] is not the {i}-th iterated item"); return False
        elif err is None:
            V("out-of-range-index-returns", f"[{i}] returned {got!r} with {k} items"); return False
    # label keys
    probes = set(labs) | {"a", "A", " a", "a ", "", "dup", "DUP", "zzz", "é", "e", "x" * 254}
    # keys no stored label can equal: not Windows-1252, over-long, or carrying a NUL after a real label
    probes |= {"Ω", "日本", "\U0001F600", "e\u0301", "\x81", "x" * 300, "\x00"}
    for lb_ in list(labs)[:3]:
        probes |= {lb_ + "\x00", lb_ + "\x00tail", lb_ + " ", lb_[:-1] if lb_ else "?"}
    for lb in sorted(probes):
        rec.count("oracle:C18.label")
        try:
            got = blk[lb]; err = None
        except Exception as e:
            got, err = None, e
        try:
            cont = lb in blk; cerr = None
        except Exception as e:
            cont, cerr = None, e
        if cerr is not None:
            V("label-membership-raises", f"({lb!r} in block) raised {type(cerr).__name__}"); return False
        if lb in labs:
            first = items[labs.index(lb)]
            if err is not None:
                V("present-label-raises", f"[{lb!r}] raised {type(err).__name__}: {err}"); return False
            if got is not first:
                V("label-returns-not-first-match", f"[{lb!r}] returned item #{ident(items).index(id(got)) if id(got) in ident(items) else '?'} "
                  f"first match is #{labs.index(lb)}"); return False
            if cont is not True and cont != True:  # noqa: E712
                V("contains-disagrees-with-lookup", f"{lb!r} in block is {cont} but lookup succeeds"); return False
        else:
            if err is None:
                V("absent-label-returns", f"[{lb!r}] returned {got!r}"); return False
            if not isinstance(err, KeyError):
                V("absent-label-wrong-exception", f"[{lb!r}] raised {type(err).__name__}, not KeyError"); return False
            if cont:
                V("contains-disagrees-with-lookup", f"{lb!r} in block is {cont} but lookup raises KeyError"); return False
    # keys that are instances of subclasses of str / int: numpy strings (labels taken from an array), IntEnum positions
    import enum as _en
    if k:
        Pos = _en.IntEnum("Pos", {f"P{i_}": i_ for i_ in range(k)})
        for i_ in range(k):
            rec.count("oracle:C18.subclass-keys")
            try:
                if blk[Pos(i_)] is not items[i_]:
                    V("index-returns-other-item", f"[IntEnum({i_})] is not the {i_}-th iterated item"); return False
            except Exception as e:
                V("valid-index-raises", f"[IntEnum({i_})] raised {type(e).__name__}"); return False
        for lb in list(dict.fromkeys(labs))[:3]:
            nk = np.str_(lb)
            try:
                got_n, in_n = blk[nk], nk in blk
            except Exception as e:
                V("present-label-raises", f"[numpy.str_({lb[:20]!r})] raised {type(e).__name__}: {e}"); return False
            if got_n is not items[labs.index(lb)] or not in_n:
                V("label-returns-not-first-match", f"[numpy.str_({lb[:20]!r})]"); return False
    # item objects
    for it in items:
        rec.count("oracle:C18.item-membership")
        try:
            if not (it in blk):
                V("contained-item-not-in", "an item of the block is reported as not contained"); return False
        except Exception as e:
            V("item-membership-raises", f"{type(e).__name__}: {e}"); return False
    # unsupported key types
    for bad in (None, 1.5, b"a", ("a",), [0], {"a"}) + _foreign_keys(kind, blk):
        rec.count("oracle:C18.bad-key")
        try:
            blk[bad]
            V("unsupported-key-accepted", f"[{bad!r}] returned"); return False
        except TypeError:
            pass
        except Exception as e:
            V("unsupported-key-wrong-exception", f"[{bad!r}] raised {type(e).__name__}, not TypeError"); return False
        try:   # membership of an object of an unsupported type: TypeError today; plain False would be equally coherent
            if bad in blk:
                V("unsupported-membership-true", f"({bad!r} in block) is True"); return False
        except TypeError:
            pass
        except Exception as e:
            V("unsupported-membership-wrong-exception", f"({bad!r} in block) raised {type(e).__name__}"); return False
    for it in items[:1]:
        try:
            blk[it]
            V("item-as-key-accepted", "[item object] returned"); return False
        except TypeError:
            pass
        except Exception as e:
            V("item-as-key-wrong-exception", f"{type(e).__name__}"); return False
    # several iterations alive at once: each yields every item, in order, independently of the others
    import itertools
    rec.count("oracle:C18.interleaved-iterations")
    cap = k + 3
    it1 = iter(blk)
    head = list(itertools.islice(it1, min(1, k)))
    mid = list(itertools.islice(blk, cap))
    rest = list(itertools.islice(it1, cap))
    if ident(head + rest) != ids0 or ident(mid) != ids0:
        V("interleaved-iterations-interfere", f"an iteration started before and finished after another one yielded "
          f"{len(head) + len(rest)} items, the inner one {len(mid)}, len() is {k}"); return False
    pairs = sum(1 for _a in itertools.islice(blk, cap) for _b in itertools.islice(blk, cap))
    zz = list(itertools.islice(zip(blk, blk), cap))
    if pairs != k * k or len(zz) != k or any(a_ is not b_ for a_, b_ in zz):
        V("interleaved-iterations-interfere", f"nested loops over the block gave {pairs} pairs ({k * k} expected), "
          f"zip(block, block) {len(zz)} pairs"); return False
    # purity
    rec.count("oracle:C18.pure")
    if ident(list(blk)) != ids0 or lib.enc(blk) != x0:
        V("lookup-changed-the-block", "items or encoding changed after the lookups"); return False
    return True


def shard_c18(desc, rec):
    rng = random.Random(desc["seed"] * 83 + desc.get("shard", 0))
    for i in range(desc["n"]):
        kind = ["data3D", "force3D", "emg", "events"][i % 4]
        case = {"driver": "c18", "kind": kind, "seed": desc["seed"], "shard": desc.get("shard", 0), "index": i}
        rec.case(case, True, sample=case if i % 300 == 0 else None)
        rec.count(f"c18:{kind}")
        c18_block(rec, rng, kind, case)


# ================================================================================================
# C20
# ================================================================================================

import datetime as _dt
import enum as _enum
import types as _types

_ATOMS = (str, bytes, int, float, complex, bool, type(None), np.generic, np.dtype, _enum.Enum, type, _types.ModuleType,
          _types.FunctionType, _types.BuiltinFunctionType, _types.MethodType, _dt.datetime, _dt.date, _dt.timedelta, range)


def mutable_reach(root):
    """{id: object} of every *mutable* object reachable from root through instance attributes, containers, object
    arrays and ndarray bases: lists, dicts, sets, bytearrays, writeable ndarrays, and instances of the library's own
    classes.  Enum members, dtypes, classes, functions and immutable scalars are not state and are not followed."""
    mut, seen, stack = {}, set(), [root]
    while stack:
        o = stack.pop()
        if id(o) in seen or isinstance(o, _ATOMS):
            continue
        seen.add(id(o))
        if isinstance(o, np.ndarray):
            if o.flags.writeable:
                mut[id(o)] = o
            if o.base is not None:
                stack.append(o.base)
            if o.dtype == object:
                stack.extend(o.ravel().tolist())
        elif isinstance(o, (list, set, bytearray)):
            mut[id(o)] = o
            if not isinstance(o, bytearray):
                stack.extend(o)
        elif isinstance(o, dict):
            mut[id(o)] = o
            stack.extend(o.keys()); stack.extend(o.values())
        elif isinstance(o, (tuple, frozenset)):
            stack.extend(o)
        elif (type(o).__module__ or "").startswith("basictdf"):
            mut[id(o)] = o
            d = getattr(o, "__dict__", None)
            if d is not None:
                stack.extend(d.values())
            for sl in getattr(type(o), "__slots__", ()):
                if hasattr(o, sl):
                    stack.append(getattr(o, sl))
        elif isinstance(o, memoryview):
            try:
                if not o.readonly:       # a writeable view of some exporter (bytearray, BytesIO buffer, mmap): that
                    mut[id(o.obj)] = o.obj   # exporter is shared mutable state of everything viewing it
                stack.append(o.obj)
            except Exception:
                pass
    return mut


def _describe_shared(a, b, shared):
    """name the attribute path (one level) under which a shared object hangs, for the message"""
    out = []
    for o in list(shared.values())[:3]:
        where = [k for k, v in getattr(a, "__dict__", {}).items() if v is o]
        out.append(f"{type(o).__name__}{'@.' + where[0] if where else ''}")
    return ", ".join(out)


_SPEC = {}     # id(block) -> spec, for the kinds edited through drivers.edits


def _fresh(kind, rng, with_items):
    """separately constructed instance; never shares an argument object with another one"""
    n = 3
    if kind in ("data2D", "calib"):
        from basictdf import tdfData2D
        if kind == "data2D" and not with_items:
            # the bare constructor, the way a caller starts a block from scratch; only the public data setter is used
            # (no camera yet, so the empty camera map it starts with is the valid one)
            b = tdfData2D.Data2D(0, 2, 100, 0.0, tdfData2D.Data2DFlags(0))
            b.data = np.empty((2, 0), dtype=object)
            spec = {"t": "data2D", "format": 1, "nCams": 0, "nFrames": 2, "frequency": 100, "startTime": 0.0, "flags": 0,
                    "map": [], "cells": [[], []]}
        else:
            spec = C.small_block_spec(rng, kind, rng.choice([0, 1]))
            if kind == "calib" and not with_items:
                spec = dict(spec, cams=[], map=[])
            b = lib.build(spec, {})
        _SPEC[id(b)] = (b, spec)
        return b
    if kind == "optical":
        if with_items:
            return tdfOpticalSystem.OpticalSetupBlock(channels=[lib.build_item("optical", {"index": rng.randint(0, 9), "lens": "l", "type": "t", "name": "n%d" % rng.randint(0, 99), "vp": [0, 0, 1, 1]}, {})])
        return tdfOpticalSystem.OpticalSetupBlock()
    if kind == "events":
        b = tdfEvents.TemporalEventsData()
        if with_items:
            b.events.append(tdfEvents.Event("e%d" % rng.randint(0, 99), [1.0]))
        return b
    if kind == "platCal":
        b = tdfForcePlatformsCalibration.ForcePlatformsCalibrationDataBlock()
        if with_items:
            b.add_platform(_mk_item(rng, kind, n))
        return b
    if kind == "emg":
        b = tdfEMG.EMG(1000, n)
        if with_items:
            b.addSignal(_mk_item(rng, kind, n))
        return b
    if kind == "platData":
        b = tdfForcePlatformsData.ForcePlatformsDataBlock(0.0, 100, n)
        if with_items:
            b.add_platform(_mk_item(rng, kind, n))
        return b
    cls = tdfData3D.Data3D if kind == "data3D" else tdfForce3D.ForceTorque3D
    b = cls(100, n, np.ones(3, np.float32), np.eye(3, dtype=np.float32), np.zeros(3, np.float32))
    if with_items:
        b.add_track(_track(rng, kind, n))
        if kind == "data3D" and rng.random() < 0.5:   # a link table (public attribute of 3D blocks)
            b.links = np.array([(0, 1), (1, 2)][: rng.randint(1, 2)], dtype=lib.LINK_DT)
    return b


def _items(kind, b):
    if kind == "data2D":
        return []
    if kind == "calib":
        return list(b.cam_data)
    if kind == "optical":
        return list(b.channels)
    if kind == "events":
        return list(b.events)
    if kind == "platCal":
        return [p for _, p in b.platforms]
    if kind == "platData":
        return list(b.platforms)
    return list(b)


def _raw_values(kind, it):
    """every sample an item exposes through its public attributes, as bytes (also frames that are not encoded)"""
    names = {"data3D": ["data"], "emg": ["data"], "force3D": ["application_point", "force", "torque"],
             "platData": ["application_point", "force", "torque"], "platCal": ["size", "position"],
             "events": ["values"]}.get(kind, [])
    out = []
    for n_ in names:
        try:
            out.append(np.asarray(getattr(it, n_)).tobytes())
        except Exception:
            out.append(b"?")
    return out


def _snapshot(kind, b):
    its = _items(kind, b)
    try:
        x = lib.enc(b)
    except Exception as e:          # e.g. a 2-D block whose camera map was never filled
        x = f"unencodable:{type(e).__name__}"
    extra = None
    if kind == "data2D":
        extra = (list(b._camMap), [[None if c is None else np.asarray(c).tobytes() for c in row] for row in np.asarray(b.data, dtype=object).tolist()])
    elif kind == "calib":
        extra = [np.asarray(getattr(c, a)).tobytes() for c in its for a in ("focus", "optical_center", "rotation_matrix", "translation_vector") if hasattr(c, a)]
    return (ident(its), x, len(its), [_raw_values(kind, it) for it in its], extra)


def _mutate(kind, b, rng):
    """one public mutation of b; returns a description"""
    if kind in ("data2D", "calib"):
        from . import edits
        ent = _SPEC.get(id(b))
        if ent is None or ent[0] is not b:
            raise LookupError("no spec")
        if kind == "data2D" and rng.random() < 0.3:
            # add a camera: map entry (filled in place - no public setter exists, tests/test_data2D.py does the same),
            # camera count and one more (empty) column of cells, so that the block stays a valid one
            ch_ = rng.randint(0, 9)
            old = np.asarray(b.data, dtype=object).reshape(b.nFrames, b.nCams)
            new = np.empty((b.nFrames, b.nCams + 1), dtype=object)
            new[:, :b.nCams] = old
            if isinstance(b._camMap, list):
                b._camMap.append(ch_)
            else:                                   # decoded blocks carry the map as an array
                b._camMap = np.append(b._camMap, np.int16(ch_))
            b.nCams += 1
            b.data = new
            sp = ent[1]
            sp["nCams"] += 1; sp["map"].append(ch_)
            for row in sp["cells"]:
                row.append(None)
            return "camera-append"
        if kind == "calib" and (not ent[1]["cams"] or rng.random() < 0.3):
            # one more camera: record appended to the public list, map re-assigned one entry longer
            sp = ent[1]
            donor = C.small_block_spec(rng, "calib", 1)
            cam = next((c for c in donor["cams"]), None)
            if cam is None or donor["format"] != sp["format"]:
                donor = dict(gen.gen_spec(rng, "calib", fmt=sp["format"]))
                cam = donor["cams"][0] if donor["cams"] else None
            if cam is None:
                raise LookupError("no camera spec")
            ch_ = rng.randint(0, 50)
            b.cam_data.append(lib.build_item("calib", cam, {}))
            b.cameras_calibration_map = np.append(np.asarray(b.cameras_calibration_map, dtype=np.int16), np.int16(ch_))
            sp["cams"].append(cam); sp["map"].append(ch_)
            return "camera-append"
        r_ = None
        for _ in range(6):
            r_ = edits.inplace_edit(rng, b, ent[1])
            if r_:
                break
        if not r_:
            raise LookupError("no edit applicable")
        _SPEC[id(b)] = (b, r_[1])
        return r_[0]
    its = _items(kind, b)
    r = rng.random()
    if kind in ("data3D", "force3D") and rng.random() < 0.12:
        arr_ = getattr(b, rng.choice(["volume", "rotationMatrix", "translationVector"]), None)
        if isinstance(arr_, np.ndarray) and arr_.flags.writeable and arr_.size:
            arr_.flat[0] = float(arr_.flat[0]) + 9.0
            return "edit-header-array-in-place"
    if r < 0.4 or not its:
        if kind == "optical":
            b.channels.append(lib.build_item("optical", {"index": 1, "lens": "L", "type": "T", "name": "N", "vp": [1, 2, 3, 4]}, {}))
        elif kind == "events":
            b.events.append(tdfEvents.Event("added", [2.0]))
        elif kind in ("platCal", "platData"):
            try:
                b.add_platform(_mk_item(rng, kind, 3))
            except ValueError:
                b.add_platform(_mk_item(rng, kind, 3), max([int(c) for c, _ in (b.platforms if kind == "platCal" else list(b))] + [0]) + 7)
        elif kind == "emg":
            b.addSignal(_mk_item(rng, kind, 3))
        else:
            b.add_track(_track(rng, kind, 3))
        return "append-item"
    if r < 0.55:
        it = rng.choice(its)
        if kind == "optical":
            it.camera_name = "renamed"
        elif kind != "platData":
            it.label = "renamed"
        else:
            it.torque = np.array(it.torque, dtype=np.float32) + 1
        return "edit-item-field"
    if r < 0.7:
        if kind == "optical":
            b.channels.pop()
        elif kind == "events":
            b.events.pop()
        elif kind == "platCal":
            b.remove_platform(0)
        elif kind in ("data3D", "force3D"):
            b.tracks = b.tracks[:-1]
        else:
            return _mutate(kind, b, random.Random(rng.random() * 1e9 // 1))
        return "remove-item"
    it = rng.choice(its)
    arr = {"data3D": lambda: it.data, "emg": lambda: it.data,
           "force3D": lambda: rng.choice([it.application_point, it.force, it.torque]),
           "platData": lambda: rng.choice([it.application_point, it.force, it.torque]),
           "platCal": lambda: it.position, "events": lambda: it.values}.get(kind)
    if arr is not None:
        a = arr()
        if isinstance(a, np.ndarray) and a.flags.writeable and a.size:
            a.flat[0] = 4242.0
            return "edit-sample-in-place"
    return _mutate(kind, b, random.Random(int(rng.random() * 1e9)))


def _lookups_own(rec, kind, pool, V):
    """every live instance answers label lookups from its OWN items (an index kept outside the instance - keyed by id(),
    or in a class attribute - would answer from another instance's)"""
    for b_ in pool:
        its_ = _items(kind, b_)
        labs_ = [getattr(t_, "label", None) for t_ in its_]
        for lb in dict.fromkeys(l_ for l_ in labs_ if isinstance(l_, str)):
            rec.count("oracle:C20.label-lookup-answers-from-own-items")
            try:
                hit = b_[lb]
            except Exception:
                continue            # what a lookup raises is C18's business
            if hit is not its_[labs_.index(lb)]:
                V("label-lookup-answers-from-another-instance",
                  f"[{lb[:20]!r}] of an instance holding labels {[str(l_)[:12] for l_ in labs_]} does not give its first item "
                  f"with that label")
                return False
    return True


def shard_c20(desc, rec):
    global ALLGAP_P
    ALLGAP_P = 0.3     # wholly-missing tracks / platforms are where decoders are tempted to share a NaN template
    rng = random.Random(desc["seed"] * 89 + desc.get("shard", 0))
    kinds = ["data3D", "force3D", "emg", "events", "platCal", "platData", "optical", "data2D", "calib"]
    scratch = env.scratch_dir()
    for i in range(desc["n"]):
        kind = kinds[i % len(kinds)]
        steps = []
        _SPEC.clear()
        tainted = set()     # ids of instances the harness itself made share items (tracks handed from one to the other)
        case = {"driver": "c20", "kind": kind, "seed": desc["seed"], "shard": desc.get("shard", 0), "index": i, "steps": steps}
        rec.case({k: v for k, v in case.items() if k != "steps"}, True,
                 sample={k: v for k, v in case.items() if k != "steps"} if i % 200 == 0 else None)
        rec.count(f"c20:{kind}")
        pool = []

        def V(key, msg):
            rec.violation("C20", f"{kind}:{key}", f"[after {steps}] {msg}", dict(case, steps=list(steps)))
        ok = True
        for _ in range(rng.randint(10, 40)):
            r = rng.random()
            before = [(b, _snapshot(kind, b)) for b in pool]
            if kind in ("data3D", "force3D", "emg", "events") and not _lookups_own(rec, kind, pool, V):
                ok = False
                break
            touched = None          # the one instance this step is allowed to change
            what = "?"
            if r < 0.25 or len(pool) < 2:
                wi = rng.random() < 0.5
                what = "construct" + ("(items)" if wi else "()")
                steps.append(what)
                b = _fresh(kind, rng, wi)
                rec.count("oracle:C20.fresh-instance-empty")
                if not wi and len(_items(kind, b)) != 0:
                    V("fresh-instance-not-empty", f"a block constructed without items holds {len(_items(kind, b))}"); ok = False; break
                if not wi:
                    try:
                        x_empty = lib.enc(b)
                        b_ref, _ = lib.dec(kind, lib.fmt_of(b), x_empty)
                        if len(_items(kind, b_ref)) != 0 or (kind == "data3D" and len(getattr(b, "links", [])) != 0):
                            V("fresh-instance-not-empty", "a block constructed without items encodes items / links of earlier instances"); ok = False; break
                    except Exception:
                        pass
                pool.append(b)
                if len(pool) > 4:
                    pool.pop(0)
            elif r < 0.4:
                src = rng.choice(pool)
                if kind == "data2D" and len(src._camMap) != src.nCams:
                    continue     # a 2-D block whose camera map is not (yet) one entry per camera is not a valid block
                x = lib.enc(src)
                what = "decode-twice"
                steps.append(what)
                if isinstance(x, bytes) and rng.random() < 0.5:
                    # ... through a file: two reads of the same stored block, by different accessors, inside ONE
                    # context of one Tdf object (or in two successive contexts of it)
                    what = "file-read-twice"
                    steps[-1] = what
                    got = _read_twice(rng, kind, src, scratch, steps)
                    if got is None:
                        continue
                    d1, d2 = got
                    rec.count("c20:file-read-twice")
                elif isinstance(x, bytes) and rng.random() < 0.4:
                    # ... from one stream, rewound in between (what a caller holding a BytesIO would do)
                    from io import BytesIO as _B
                    what = "decode-twice(one rewound stream)"
                    steps[-1] = what
                    st_ = _B(x)
                    d1 = lib.BLOCK_CLASS[kind]._build(st_, lib.fmt_of(src))
                    st_.seek(0)
                    d2 = lib.BLOCK_CLASS[kind]._build(st_, lib.fmt_of(src))
                    rec.count("c20:decode-twice-one-stream")
                else:
                    d1, _ = lib.dec(kind, lib.fmt_of(src), x)
                    d2, _ = lib.dec(kind, lib.fmt_of(src), x)
                rec.count("oracle:C20.two-decodes-are-two-objects")
                if d1 is d2 or d1 is src:
                    V("decode-returns-shared-object", "decoding the same bytes twice returned one and the same block object"); ok = False; break
                ent = _SPEC.get(id(src))
                if ent is not None and ent[0] is src:
                    import copy as _copy
                    _SPEC[id(d1)] = (d1, _copy.deepcopy(ent[1])); _SPEC[id(d2)] = (d2, _copy.deepcopy(ent[1]))
                pool.extend([d1, d2])
                pool = pool[-4:]
            elif r < 0.46 and kind == "platCal" and len(pool) >= 2:
                # two blocks filled through add_platforms with the *same* argument lists: what the second one gets is
                # what a block gets that is the only one ever filled from these lists
                a_, b_ = rng.sample(range(len(pool)), 2)
                if pool[a_] is pool[b_]:
                    continue
                used_ab = set(observed_pairs(kind, pool[a_])[0] or []) | set(observed_pairs(kind, pool[b_])[0] or [])
                chs_ = [c_ for c_ in range(300, 340) if c_ not in used_ab][: rng.randint(1, 3)]
                chs0 = list(chs_)
                what = f"#{a_}.add_platforms(P, L); #{b_}.add_platforms(Q, L)  (L={chs0})"
                steps.append(what)
                before = [(b, sn) for b, sn in before if b is not pool[a_]]
                touched = pool[b_]
                try:
                    pool[a_].add_platforms([_mk_item(rng, kind, 3) for _ in chs0], chs_)
                    nb_before = len(_items(kind, pool[b_]))
                    pool[b_].add_platforms([_mk_item(rng, kind, 3) for _ in chs0], chs_)
                except Exception as e:
                    steps.append(f"refused:{type(e).__name__}")
                    continue
                rec.count("oracle:C20.argument-lists-reused-across-blocks")
                got_ch = (observed_pairs(kind, pool[b_])[0] or [])[nb_before:]
                if got_ch != chs0 or chs_ != chs0:
                    V("call-on-one-instance-changes-what-the-next-gets",
                      f"the second block was given channels {chs0} and holds {got_ch}; the caller's list is now {chs_}")
                    ok = False
                    break
            elif r < 0.5 and kind in ("emg", "platData", "platCal") and len(pool) >= 2:
                # one item object bound into a second block, under another channel: the first block keeps its own pairing
                a_, b_ = rng.sample(range(len(pool)), 2)
                its_a = _items(kind, pool[a_])
                if pool[a_] is pool[b_] or not its_a:
                    continue
                it_ = rng.choice(its_a)
                used_b = observed_pairs(kind, pool[b_])[0] or []
                ch_ = next(c_ for c_ in range(40, 200) if c_ not in used_b)
                what = f"#{b_}.add(<item of #{a_}>, channel={ch_})"
                steps.append(what)
                touched = pool[b_]
                tainted.update((id(pool[a_]), id(pool[b_])))
                try:
                    if kind == "emg":
                        if it_.nSamples != pool[b_].nSamples:
                            continue
                        pool[b_].addSignal(it_, channel=ch_)
                    else:
                        pool[b_].add_platform(it_, channel=ch_)
                    rec.count("c20:item-bound-into-a-second-block")
                except Exception as e:
                    steps.append(f"refused:{type(e).__name__}")
            elif r < 0.5 and kind in ("data3D", "force3D") and len(pool) >= 2:
                # hand one block's track list to another block's setter: afterwards they still are two blocks
                a_, b_ = rng.sample(range(len(pool)), 2)
                if pool[a_] is pool[b_]:
                    continue
                what = f"#{b_}.tracks = #{a_}.tracks"
                steps.append(what)
                touched = pool[b_]
                tainted.update((id(pool[a_]), id(pool[b_])))
                try:
                    pool[b_].tracks = pool[a_].tracks
                except Exception as e:
                    steps.append(f"refused:{type(e).__name__}")
            else:
                j = rng.randrange(len(pool))
                if any(b is pool[j] for k, b in enumerate(pool) if k != j):
                    V("two-instances-are-one-object", "two separately obtained instances are the same object"); ok = False; break
                touched = pool[j]
                try:
                    what = _mutate(kind, pool[j], rng)
                except Exception as e:
                    steps.append(f"mutate#{j}:raised {type(e).__name__}")
                    rec.count(f"c20:mutate-raised:{type(e).__name__}")
                    continue
                steps.append(f"mutate#{j}:{what}")
                rec.count(f"c20:mutate:{what}")
            # frame condition: whatever the step was, no instance other than `touched` may have changed
            rec.count("oracle:C20.others-unchanged")
            mine = set(ident(_items(kind, touched))) if touched is not None else set()
            for b, snap in before:
                if b is touched or not any(b is p_ for p_ in pool):
                    continue
                now = _snapshot(kind, b)
                if what in ("edit-item-field", "edit-sample-in-place") and mine & set(snap[0]):
                    rec.count("c20:item-edit-on-deliberately-shared-item(not judged)")
                    continue   # the harness itself put the same item objects into both blocks
                if now != snap:
                    whatc = "items" if now[0] != snap[0] else ("encoding" if now[1] != snap[1] else "sample values")
                    V("mutation-leaks-into-other-instance" if touched is not None else "construction-or-decoding-changes-existing-instance",
                      f"step '{what}' changed the {whatc} of another live instance ({snap[2]} -> {now[2]} items)")
                    ok = False
                    break
            if not ok:
                break
            # heap monitor: the mutable objects reachable from two separately created instances are disjoint
            live = [b for b in pool if id(b) not in tainted]
            reach = [(b, mutable_reach(b)) for b in live]
            rec.count("oracle:C20.heap-disjoint", max(0, len(reach) * (len(reach) - 1) // 2))
            for a_i in range(len(reach)):
                for b_i in range(a_i + 1, len(reach)):
                    (ba, ra), (bb, rb) = reach[a_i], reach[b_i]
                    if ba is bb:
                        continue
                    sh = {k_: ra[k_] for k_ in ra.keys() & rb.keys()}
                    if sh:
                        V("instances-share-mutable-object",
                          f"after '{what}': two separately created instances both reach the same mutable object(s): "
                          f"{_describe_shared(ba, bb, sh)}")
                        ok = False
                        break
                if not ok:
                    break
            if not ok:
                break
        for f_ in list(scratch_files):
            try:
                import os as _os
                _os.unlink(f_)
            except OSError:
                pass
        scratch_files.clear()


scratch_files = []


def _read_twice(rng, kind, src, scratch, steps):
    """store src in a fresh file and read it back twice through one Tdf object; returns the two blocks"""
    import os
    from basictdf import Tdf
    path = os.path.join(scratch, f"c20_{os.getpid()}_{len(scratch_files)}_{rng.getrandbits(32):08x}.tdf")
    scratch_files.append(path)
    t = Tdf.new(path)
    with t.allow_write() as w:
        w.add_block(src)
    bt = lib.BLOCK_TYPE[kind]
    attr = C.GETTER.get(kind)

    def read(tt, how):
        if how == "get_block":
            return tt.get_block(bt)
        if how == "property" and attr:
            return getattr(tt, attr)
        if how == "index":
            return tt[0]
        if how == "blocks":
            return [b for b in tt.blocks if type(b) is type(src)][0]
        return tt.get_block(bt)
    h1, h2 = rng.choice(["get_block", "property", "index", "blocks"]), rng.choice(["get_block", "property", "index", "blocks"])
    mode = rng.choice(["one-context", "two-contexts", "write-context", "no-context"])
    steps[-1] = f"file-read-twice({mode}:{h1},{h2})"
    t2 = Tdf(path)
    if mode == "one-context":
        with t2 as tt:
            return read(tt, h1), read(tt, h2)
    if mode == "write-context":
        with t2.allow_write() as tt:
            return read(tt, h1), read(tt, h2)
    if mode == "two-contexts":
        with t2 as tt:
            d1 = read(tt, h1)
        with t2 as tt:
            d2 = read(tt, h2)
        return d1, d2
    if h1 in ("index",):
        h1 = "get_block"
    if h2 in ("index",):
        h2 = "get_block"
    return read(t2, h1), read(t2, h2)


SHARDS = {"c15": shard_c15, "c16": shard_c16, "c18": shard_c18, "c20": shard_c20}


def run_shard(desc, rec):
    SHARDS[desc["kind"]](desc, rec)


def replay(case, rec):
    d = case["driver"]
    SHARDS[d]({"seed": case.get("seed", 0), "shard": case.get("shard", 0), "n": case.get("index", 0) + 1}, rec)
