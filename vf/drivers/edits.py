"""In-place edits of live library objects through their public attributes, mirrored on the spec.

A block that has already been encoded / sized / compared and is then edited in place is still "a
valid block": every codec property must hold for its new state.  This is the workload that exposes
stale caches (segment lists, sizes, serialised payloads) keyed on object identity.
"""
from __future__ import annotations

import copy

import numpy as np

from .. import env, gen

env.bootstrap()
from .. import lib  # noqa: E402

class NotJudged(Exception):
    """the edit left the block in a state this workload has no model for; every caller abandons the case"""


W = {"data3D": 3, "emg": 1, "force3D": 9, "platData": 6}


def _items(kind, b):
    if kind in ("data3D", "force3D"):
        return list(b.tracks)
    if kind == "emg":
        return list(b)
    if kind == "platData":
        return list(b.platforms)
    if kind == "platCal":
        return [p for _, p in b.platforms]
    if kind == "calib":
        return list(b.cam_data)
    if kind == "optical":
        return list(b.channels)
    if kind == "events":
        return list(b.events)
    return []


def _set_frame(kind, it, k, vals):
    """vals: list of floats or None (gap)"""
    nan = float("nan")
    if kind == "data3D":
        it.data[k] = vals if vals is not None else nan
    elif kind == "emg":
        it.data[k] = vals if vals is not None else nan
    elif kind == "force3D":
        v = vals if vals is not None else [nan] * 9
        if np.asarray(it.application_point).dtype == np.float16:
            # a half-precision array (see "rebind-data") would round what is written into it: the caller widens it first
            it.application_point = np.asarray(it.application_point).astype(np.float32)
        it.application_point[k] = v[0:3]
        it.force[k] = v[3:6]
        it.torque[k] = v[6:9]
    elif kind == "platData":
        v = vals if vals is not None else [nan] * 6
        it.application_point[k] = v[0:2]
        it.force[k] = v[2:5]
        it.torque[k] = v[5]


def inplace_edit(rng, b, spec):
    """apply one random in-place edit to b; returns (name, new spec) or None"""
    kind = spec["t"]
    s2 = copy.deepcopy(spec)
    key = lib.ITEMS_KEY.get(kind)
    its = _items(kind, b)
    choices = []
    if kind in W and its:
        choices += ["open-gap", "fill-gap", "change-sample", "rebind-data"] * 2
        if kind == "data3D":
            choices += ["column-setter"]
    if its and kind in ("data3D", "emg", "force3D", "platCal", "events"):
        choices.append("label")
    if kind == "optical" and its:
        choices.append("optical-name")
    if "frequency" in spec:
        choices.append("frequency")
    if kind in ("data3D", "emg", "force3D", "events", "optical"):
        choices.append("append-item")
    if its and kind in ("data3D", "emg", "force3D", "platCal", "events", "optical"):
        choices.append("remove-item")
    if kind == "data2D" and spec["nCams"] and spec["nFrames"]:
        choices += ["cell-set", "cell-clear"]
    if kind == "events" and its:
        choices.append("event-values")
    if kind == "platCal" and its:
        choices.append("platcal-size")
    if kind == "calib" and its:
        choices.append("camera-focus")
    if kind == "data3D" and spec["format"] in (1, 2):
        choices.append("format-switch")
    if kind in ("data3D", "emg", "force3D", "platData", "platCal"):
        choices.append("refused-request")
    if not choices:
        return None
    ch = rng.choice(choices)
    if ch == "format-switch":
        # the same block stored in the other by-track format: with / without its link table
        from basictdf import tdfData3D
        new = 2 if spec["format"] == 1 else 1
        b.format = tdfData3D.Data3dBlockFormat(new)
        s2["format"] = new
        if new == 2:
            s2.pop("links", None)
        else:
            links = getattr(b, "links", [])
            s2["links"] = [[int(x), int(y)] for x, y in (links.tolist() if isinstance(links, np.ndarray) else links)]
        return ch, s2
    if ch == "refused-request":
        # a request the block must refuse (wrong length, wrong kind, channel already in use, a list with one bad
        # element): afterwards it is the block it was before.  If the request is *not* refused the case is dropped
        # here (admission is C15 / C16's business), never judged with a guessed state.
        n = spec.get("nFrames", spec.get("nSamples", 3))
        w = W.get(kind)
        what = rng.choice(["wrong-length", "wrong-kind", "channel-in-use", "bad-list"])
        try:
            if kind in ("data3D", "force3D"):
                bad = lib.build_item(kind, {"label": "bad", "frames": gen.rframes(rng, [True] * (n + 1), w)}, {})
                if what == "bad-list":
                    b.tracks = list(b.tracks) + [bad]
                elif what == "wrong-kind":
                    b.add_track(object())
                else:
                    b.add_track(bad)
            elif kind == "emg":
                if what == "channel-in-use" and spec["map"]:
                    okt = lib.build_item(kind, {"label": "dup", "frames": gen.rframes(rng, [True] * n, 1)}, {})
                    b.addSignal(okt, channel=rng.choice(spec["map"]))
                elif what == "wrong-kind":
                    b.addSignal(object())
                else:
                    b.addSignal(lib.build_item(kind, {"label": "bad", "frames": gen.rframes(rng, [True] * (n + 1), 1)}, {}))
            elif kind == "platData":
                # (the length of a platform's arrays is not checked on admission by this block type, and no property
                # says it is: only a taken channel and a foreign object are requests it has to refuse)
                if what in ("channel-in-use", "wrong-length") and spec["map"]:
                    okp = lib.build_item(kind, {"frames": gen.rframes(rng, [True] * n, 6)}, {})
                    b.add_platform(okp, channel=rng.choice(spec["map"]))
                else:
                    b.add_platform(object())
            else:
                if what == "channel-in-use" and spec["map"]:
                    b.add_platform(lib.build_item(kind, {"label": "dup", "size": [1.0, 2.0], "position": [0.0] * 12}, {}),
                                   channel=rng.choice(spec["map"]))
                else:
                    b.add_platform(object())
        except Exception:
            return ch + ":" + what, s2
        raise NotJudged("a request that had to be refused was accepted")
    if ch in ("open-gap", "fill-gap", "change-sample", "rebind-data", "column-setter"):
        i = rng.randrange(len(its))
        fr = s2[key][i]["frames"]
        n = len(fr)
        w = W[kind]
        if ch == "open-gap":
            present = [k for k, f in enumerate(fr) if f is not None]
            if not present:
                return None
            k = rng.choice(present)
            _set_frame(kind, its[i], k, None)
            fr[k] = None
        elif ch == "fill-gap":
            gaps = [k for k, f in enumerate(fr) if f is None]
            if not gaps:
                return None
            k = rng.choice(gaps)
            v = gen.rframes(rng, [True], w)[0]
            _set_frame(kind, its[i], k, v if w > 1 else v)
            fr[k] = v
        elif ch == "change-sample":
            present = [k for k, f in enumerate(fr) if f is not None]
            if not present:
                return None
            k = rng.choice(present)
            v = gen.rframes(rng, [True], w)[0]
            _set_frame(kind, its[i], k, v)
            fr[k] = v
        elif ch == "rebind-data":
            newf = gen.rframes(rng, gen.rmask(rng, n), w)
            # the new arrays come as the caller happens to have them: float32, float64 (what most numpy routines
            # return) or big-endian - chosen without drawing from the edit stream
            var2 = [{}, {"dtype": "f8"}, {"endian": ">"}][(n + i + len(newf and [f for f in newf if f is None])) % 3]
            it2 = lib.build_item(kind, dict(s2[key][i], frames=newf), var2)
            if kind in ("data3D", "emg"):
                # a raw array, not one that went through a track constructor
                its[i].data = lib._frames_array(newf, w, lib._fdt(var2))
            elif kind == "force3D" and not var2:
                # the application point comes in a narrower type than force and torque (half precision, e.g. from a
                # compressed source): its values are made exactly representable there, the other six stay float32
                apw = 3
                for f in newf:
                    if f is not None:
                        for q in range(apw):
                            h = float(np.float16(f[q])) if abs(f[q]) < 6.0e4 else 0.0
                            f[q] = h
                it2 = lib.build_item(kind, dict(s2[key][i], frames=newf), {})
                its[i].application_point = np.asarray(it2.application_point).astype(np.float16)
                its[i].force, its[i].torque = it2.force, it2.torque
            else:
                its[i].application_point, its[i].force, its[i].torque = it2.application_point, it2.force, it2.torque
            s2[key][i]["frames"] = newf
        else:  # data3D column setters: keep gaps consistent (whole frame NaN or not)
            newf = gen.rframes(rng, gen.rmask(rng, n), 3)
            arr = np.array([f if f is not None else [np.nan] * 3 for f in newf], dtype=np.float32)
            its[i].X = arr[:, 0]
            its[i].Y = arr[:, 1]
            its[i].Z = arr[:, 2]
            s2[key][i]["frames"] = newf
        return ch, s2
    if ch == "remove-item":
        i = rng.randrange(len(its))
        if kind == "emg":
            lab = its[i].label
            i = [t.label for t in its].index(lab)      # removeSignal drops the *first* signal carrying the label
            b.removeSignal(lab)
            s2["map"].pop(i)
        elif kind == "platCal":
            b.remove_platform(i if rng.random() < 0.5 else i - len(its))
            s2["map"].pop(i)
        elif kind in ("data3D", "force3D"):
            b.tracks = [t for k_, t in enumerate(its) if k_ != i]
        elif kind == "events":
            b.events.pop(i)
        else:
            b.channels.pop(i)
        s2[key].pop(i)
        return ch, s2
    if ch == "label":
        i = rng.randrange(len(its))
        new = gen.rlabel(rng)
        its[i].label = new
        s2[key][i]["label"] = new
        return ch, s2
    if ch == "optical-name":
        i = rng.randrange(len(its))
        new = gen.rlabel(rng, 32)
        its[i].camera_name = new
        s2[key][i]["name"] = new
        return ch, s2
    if ch == "frequency":
        new = gen.ri32(rng)
        b.frequency = new
        s2["frequency"] = new
        return ch, s2
    if ch == "append-item":
        ex = gen.gen_spec(rng, kind, fmt=spec["format"])
        tries = 0
        while not ex[key] and tries < 20:
            ex = gen.gen_spec(rng, kind, fmt=spec["format"]); tries += 1
        if not ex[key]:
            return None
        it = copy.deepcopy(ex[key][0])
        if kind in W:
            n = spec.get("nFrames", spec.get("nSamples"))
            it["frames"] = gen.rframes(rng, gen.rmask(rng, n), W[kind])
        obj = lib.build_item(kind, it, {})
        if kind in ("data3D", "force3D"):
            b.add_track(obj)
        elif kind == "emg":
            c = max(spec["map"] + [0]) + 1
            b.addSignal(obj, c)
            s2["map"].append(c)
        elif kind == "events":
            b.events.append(obj)
        else:
            b.channels.append(obj)
        s2[key].append(it)
        return ch, s2
    if ch in ("cell-set", "cell-clear"):
        f, c = rng.randrange(spec["nFrames"]), rng.randrange(spec["nCams"])
        if ch == "cell-clear":
            if spec["cells"][f][c] is None:
                return None
            b.data[f, c] = None
            s2["cells"][f][c] = None
        else:
            k = rng.choice([1, 2, 5])
            pts = [[gen.rf32(rng), gen.rf32(rng)] for _ in range(k)]
            b.data[f, c] = np.array(pts, dtype=rng.choice([np.float32, np.float64]))
            s2["cells"][f][c] = pts
        return ch, s2
    if ch == "event-values":
        i = rng.randrange(len(its))
        ty = spec["events"][i]["type"]
        nv = rng.choice([0, 1]) if ty == 0 else rng.choice([0, 1, 2, 4])
        vals = [gen.rf32(rng) for _ in range(nv)]
        its[i].values = np.array(vals, dtype="<f4")
        s2["events"][i]["values"] = vals
        return ch, s2
    if ch == "platcal-size":
        i = rng.randrange(len(its))
        v = [gen.rf32(rng), gen.rf32(rng)]
        if rng.random() < 0.5 and isinstance(its[i].size, np.ndarray) and its[i].size.flags.writeable:
            its[i].size[:] = v
        else:
            its[i].size = np.array(v, dtype=np.float32)
        s2[key][i]["size"] = v
        return ch, s2
    if ch == "camera-focus":
        i = rng.randrange(len(its))
        v = [gen.rf64(rng), gen.rf64(rng)]
        if rng.random() < 0.5 and its[i].focus.flags.writeable:
            its[i].focus[:] = v
        else:
            its[i].focus = np.array(v, dtype=np.float64)
        s2[key][i]["focus"] = v
        return ch, s2
    return None
