"""The repository's own test-suite as one more workload under the monitors (codec monitor, string contracts,
class invariants).  All test modules are unittest.TestCase based, so they are loaded with unittest from a scratch
copy of tests/ (this also runs tests/test_Tdf.py, which the pinned pytest cannot collect).  Anything a monitor
records here is a C02 / C13 / C15 / C16 observation like any other."""
from __future__ import annotations

import io
import os
import shutil
import sys
import unittest

from .. import env

env.bootstrap()


def shard_repo_tests(desc, rec):
    from ..monitors import codec as codec_mon, contracts
    from . import strings
    codec_mon.install(rec)
    strings.install_contracts(rec)
    contracts.install(rec)
    scratch = env.scratch_dir() / "repo_tests"
    if scratch.exists():
        shutil.rmtree(scratch)
    shutil.copytree(env.REPO / "tests", scratch / "tests", ignore=shutil.ignore_patterns("__pycache__"))
    cwd = os.getcwd()
    os.chdir(scratch)
    sys.path.insert(0, str(scratch))
    for m in [m for m in sys.modules if m == "tests" or m.startswith("tests.")]:
        del sys.modules[m]
    try:
        suite = unittest.TestLoader().discover(str(scratch / "tests"), top_level_dir=str(scratch))
        out = io.StringIO()
        old_stdout = sys.stdout
        sys.stdout = io.StringIO()
        try:
            res = unittest.TextTestRunner(stream=out, verbosity=0).run(suite)
        finally:
            sys.stdout = old_stdout
    finally:
        os.chdir(cwd)
        sys.path.remove(str(scratch))
    rec.count("repo-tests:run", res.testsRun)
    rec.count("repo-tests:failures", len(res.failures) + len(res.errors))
    for t, tb in (res.failures + res.errors)[:5]:
        rec.note(f"repository test failed under monitors: {t}: {tb[-300:]}")
    rec.case({"repo-tests": res.testsRun}, True, sample={"workload": "repository test-suite under monitors",
                                                         "tests_run": res.testsRun})
    rec.case({"repo-tests-2": len(res.failures)}, True)
    shutil.rmtree(scratch, ignore_errors=True)


def run_shard(desc, rec):
    shard_repo_tests(desc, rec)
