"""C13 - fixed-width text fields: BTSString.write / read, directly and through blocks and entries.

Postconditions are attached to the real BTSString.write / read with icontract.ensure (named
condition functions that *record and return True*, so they stay on in every workload without
changing control flow); the dedicated driver enumerates strings and byte fields.
"""
from __future__ import annotations

import random
from io import BytesIO

from .. import env, gen, refcodec as rc

env.bootstrap()
from .. import lib  # noqa: E402

from basictdf.tdfTypes import BTSString  # noqa: E402

_rec = None
_contracts = False
UNDECODABLE = {0x81, 0x8D, 0x8F, 0x90, 0x9D}


def encodable(s):
    try:
        b = s.encode("cp1252")
    except UnicodeEncodeError:
        return None
    return b


# ---- contracts --------------------------------------------------------------------------------
def write_post(size, data, result):
    if _rec is not None:
        _rec.count("contract:BTSString.write.post")
        b = encodable(data)
        ok = (isinstance(result, bytes) and len(result) == size and b is not None and len(b) < size
              and result[:len(b)] == b and result[len(b):] == b"\x00" * (size - len(b)))
        if not ok:
            _rec.violation("C13", "write:postcondition",
                           f"BTSString.write({size}, {data[:40]!r}...) returned {len(result)} bytes "
                           f"(terminated={result[len(b):len(b) + 1] == b'\\x00' if b is not None else None})",
                           {"driver": "strings", "width": size, "s": data})
    return True


def read_post(size, data, result, encoding):
    import codecs
    if codecs.lookup(encoding).name != "cp1252":      # reads under another code page are not what C13 describes
        return True
    if _rec is not None:
        _rec.count("contract:BTSString.read.post")
        z = data.find(b"\x00")
        raw = data if z < 0 else data[:z]
        try:
            want = raw.decode("cp1252")
        except UnicodeDecodeError:
            return True
        if result != want:
            _rec.violation("C13", "read:postcondition",
                           f"BTSString.read({size}, ...) returned {result[:40]!r}, field holds {want[:40]!r}",
                           {"driver": "strings", "width": size, "bytes": data.hex()})
    return True


def install_contracts(rec):
    global _rec, _contracts
    _rec = rec
    if _contracts:
        return True
    if not env.ensure_deps():
        rec.count("contracts:unavailable")
        return False
    import icontract

    class PostBroken(Exception):
        pass
    w = BTSString.__dict__["write"].__func__
    r = BTSString.__dict__["read"].__func__
    BTSString.write = staticmethod(icontract.ensure(write_post, error=PostBroken)(w))
    BTSString.read = staticmethod(icontract.ensure(read_post, error=PostBroken)(r))
    _contracts = True
    return True


# ---- driver -------------------------------------------------------------------------------------
def check_write(rec, w, s, tag):
    case = {"driver": "strings", "width": w, "s": s}
    rec.case({"w": w, "s": s}, True, sample=case if rec.evaluations % 4001 == 0 else None)
    rec.count(f"c13:write:{tag}")
    b = encodable(s)
    valid = b is not None and "\x00" not in s and len(b) + 1 <= w
    try:
        out = BTSString.write(w, s)
        err = None
    except Exception as e:
        out, err = None, e
    if "\x00" in s:
        rec.count("c13:embedded-NUL(not judged)")
        return
    if valid:
        rec.count("oracle:C13.write-valid")
        if err is not None:
            rec.violation("C13", "write:valid-string-refused", f"{type(err).__name__}: {err}", case)
            return
        if len(out) != w:
            rec.violation("C13", "write:wrong-width", f"{len(out)} bytes for a {w}-byte field", case)
            return
        if out[:len(b)] != b:
            rec.violation("C13", "write:content", "encoded bytes differ from cp1252 encoding", case)
        if out[len(b)] != 0:
            rec.violation("C13", "write:no-terminator", f"byte {len(b)} is {out[len(b)]}", case)
        if any(out[len(b):]):
            rec.violation("C13", "write:padding-not-zero", "non-zero byte after the terminator", case)
        if not s.isascii():      # these bytes are first seen under another code page, then read normally
            for enc_ in ("latin-1", "utf-8"):
                try:
                    BTSString.read(w, out, enc_)
                except Exception:
                    pass
            rec.count("oracle:C13.first-read-in-other-code-page")
        try:
            back = BTSString.read(w, out)
        except Exception as e:
            rec.violation("C13", "read:raises-on-written-field", f"{type(e).__name__}: {e}", case)
            return
        rec.count("oracle:C13.roundtrip")
        if back != s:
            rec.violation("C13", "roundtrip:string-changed", f"read back {back[:50]!r}", case)
        # the answer of a default read does not depend on earlier reads of the same bytes under another code page
        for enc_ in ("latin-1", "utf-8", "cp437"):
            try:
                BTSString.read(w, out, enc_)
            except Exception:
                pass
            rec.count("oracle:C13.default-read-after-read-in-other-code-page")
            try:
                again = BTSString.read(w, out)
            except Exception as e:
                rec.violation("C13", "read:raises-on-written-field", f"after a {enc_} read: {type(e).__name__}: {e}", case)
                return
            if again != s:
                rec.violation("C13", "roundtrip:string-changed", f"after a {enc_} read of the same bytes the default read gives {again[:50]!r}", case)
                return
        # bwrite / bread through a stream, followed by a sentinel: nothing spills
        buf = BytesIO()
        BTSString.bwrite(buf, w, s)
        buf.write(b"\xAB\xCD")
        if len(buf.getvalue()) != w + 2:
            rec.violation("C13", "bwrite:spills", f"{len(buf.getvalue()) - 2} bytes written", case)
        buf.seek(0)
        if BTSString.bread(buf, w) != s or buf.read(2) != b"\xAB\xCD":
            rec.violation("C13", "bread:misaligned", "stream not positioned right after the field", case)
    else:
        rec.count("oracle:C13.write-invalid-refused")
        if err is None:
            why = "too long" if b is not None else "not cp1252-encodable"
            key = "write:over-long-accepted" if b is not None else "write:unencodable-accepted"
            rec.violation("C13", key, f"{why} string accepted, {len(out)} bytes returned "
                          f"(terminated={out.endswith(b'\\x00')})", case)
        elif not isinstance(err, ValueError):
            rec.violation("C13", "write:refused-with-non-ValueError", f"{type(err).__name__}: {err}", case)


def check_read(rec, w, field: bytes, rng):
    case = {"driver": "strings", "width": w, "bytes": field.hex()}
    rec.case({"w": w, "b": field.hex()}, True)
    z = field.find(b"\x00")
    raw = field if z < 0 else field[:z]
    if any(c in UNDECODABLE for c in raw):
        rec.count("c13:read:undecodable-before-terminator(not judged)")
        return
    want = raw.decode("cp1252")
    rec.count("oracle:C13.read")
    try:
        got = BTSString.read(w, field)
    except Exception as e:
        rec.violation("C13", "read:raises", f"{type(e).__name__}: {e}", case)
        return
    if got != want:
        rec.violation("C13", "read:not-cut-at-first-NUL" if z >= 0 else "read:full-width-string",
                      f"got {got[:40]!r} want {want[:40]!r}", case)
    # the stream variant reads the same field the same way and leaves the stream right behind it
    rec.count("oracle:C13.bread==read")
    buf = BytesIO(b"\x11" * 3 + field + b"\xAB\xCD")
    buf.seek(3)
    try:
        got_s = BTSString.bread(buf, w)
        if got_s != want or buf.read(2) != b"\xAB\xCD":
            rec.violation("C13", "bread:differs-from-read", f"bread gave {got_s[:40]!r}, field holds {want[:40]!r}", case)
    except Exception as e:
        rec.violation("C13", "bread:raises", f"{type(e).__name__}: {e}", case, exc=e)
    if z >= 0 and z + 1 < w:
        other = field[:z + 1] + bytes(rng.getrandbits(8) for _ in range(w - z - 1))
        rec.count("oracle:C13.read-tail-independent")
        try:
            if BTSString.read(w, other) != got:
                rec.violation("C13", "read:depends-on-tail", "bytes after the terminator change the result", case)
        except Exception as e:
            rec.violation("C13", "read:tail-breaks-reading", f"{type(e).__name__}: {e}", case)


NONCP = ["\x81", "\x8d", "\x9d", "Ā", "ř", "Ω", "中", "日本", "\U0001F600", "퟿", "€₭", "ǅ"]


def shard_strings(desc, rec):
    install_contracts(rec)
    rng = random.Random(desc["seed"] * 61 + 4)
    widths = [1, 2, 3, 4, 32, 256]
    chars = gen.CP1252_CHARS
    for w in widths:
        # lengths 0 .. w+3, ascii
        for n in range(0, w + 4):
            check_write(rec, w, "a" * n, "length-sweep")
            check_write(rec, w, "".join(rng.choice(chars) for _ in range(n)), "length-sweep-cp1252")
        # every encodable character at first / middle / last position of a maximal string
        L = w - 1
        for ch in chars:
            if L >= 1:
                for pos in {0, L // 2, L - 1}:
                    s = ["x"] * L
                    s[pos] = ch
                    check_write(rec, w, "".join(s), "char-position")
            check_write(rec, w, ch, "single-char")
            check_write(rec, w, ch * (L + 1), "over-long-by-one")
        # non-cp1252 code points
        for bad in NONCP:
            for pre in ("", "ab"):
                check_write(rec, w, pre + bad, "non-cp1252")
        check_write(rec, w, "a\x00b", "embedded-NUL")
    # every code point of the Basic Multilingual Plane that Windows-1252 cannot encode, alone and after a letter (so
    # that a combining mark could compose with it), plus canonically / compatibly decomposed forms of every encodable
    # character: none may be accepted, whatever normalisation, folding or transliteration would make of it
    import unicodedata
    enc = set(chars)
    bmp_bad = [chr(c) for c in range(1, 0x10000) if chr(c) not in enc]
    for ch in bmp_bad:
        check_write(rec, 32, ch, "bmp-unencodable")
        check_write(rec, 32, "e" + ch, "bmp-unencodable-after-letter")
    marks = [ch for ch in bmp_bad if unicodedata.combining(ch)]
    for base in "aAcCnNoOuUyYsSzZiI":
        for m in marks[:120]:
            check_write(rec, 32, base + m, "letter+combining-mark")
    for ch in chars:
        for form in ("NFD", "NFKD"):
            dcm = unicodedata.normalize(form, ch)
            if dcm != ch and encodable(dcm) is None:
                check_write(rec, 32, dcm, "decomposed-cp1252-char")
                check_write(rec, 256, "x" + dcm + "y", "decomposed-cp1252-char")
    for c in (0x10000, 0x1F600, 0x1D400, 0x2F800, 0xE0001, 0x10FFFF):
        check_write(rec, 32, chr(c), "astral")
    rec.exhaustive["every BMP code point not encodable in Windows-1252, alone and after a letter (width 32)"] = True
    rec.exhaustive["every cp1252 character at first/middle/last position, lengths 0..w+3, widths 1,2,3,4,32,256"] = True
    # random strings
    for i in range(desc["n"]):
        w = rng.choice(widths + [32, 256, 256])
        n = rng.choice([0, 1, w - 2, w - 1, w, w + 1, rng.randint(0, w + 3)])
        n = max(0, n)
        pool = chars if rng.random() < 0.8 else chars + NONCP
        check_write(rec, w, "".join(rng.choice(pool) for _ in range(n)), "random")
    # read side: random byte fields
    for i in range(desc["n"]):
        w = rng.choice(widths)
        kind = rng.random()
        if kind < 0.3:
            f = bytes(rng.getrandbits(8) for _ in range(w))
        elif kind < 0.6:
            z = rng.randrange(w)
            f = bytes(rng.choice(b"abcXYZ\xe9\xff\x80 ") for _ in range(z)) + b"\x00" + \
                bytes(rng.getrandbits(8) for _ in range(w - z - 1))
        elif kind < 0.8:
            f = bytes(rng.choice(b"abcdefgh\xe9\xfc") for _ in range(w))  # no terminator at all
        else:
            f = b"\x00" * w
        check_read(rec, w, f, rng)
    # through blocks and table entries: label of width-1 fits, width does not, next field intact
    through_blocks(rec, rng)


def _last_item(kind, b):
    if kind in ("data3D", "force3D"):
        return list(b.tracks)[-1]
    if kind == "emg":
        return list(b)[-1]
    if kind == "platCal":
        return [p_ for _, p_ in b.platforms][-1]
    if kind == "optical":
        return list(b.channels)[-1]
    return list(b.events)[-1]


def through_blocks(rec, rng):
    from .container import small_block_spec
    for kind, width in (("data3D", 256), ("emg", 256), ("force3D", 256), ("platCal", 256), ("events", 256),
                        ("optical", 32)):
        for L in (width - 2, width - 1, width, width + 5):
            for ch in ("q", "é", "€"):
                spec = small_block_spec(rng, kind, 1)
                key = lib.ITEMS_KEY[kind]
                if not spec[key]:
                    continue
                label = ch * L
                fields = ["lens", "type", "name"] if kind == "optical" else ["label"]
                for fld in fields:
                    spec2 = {**spec, key: [dict(it) for it in spec[key]]}
                    spec2[key][-1][fld] = label
                    # the text is either given to the constructor or assigned to the item's attribute afterwards
                    # (after the item has been encoded once): what is written is the text the item carries *now*
                    late = (L + len(fld) + ord(ch[0])) % 2 == 1
                    case = {"driver": "strings", "through": kind, "field": fld, "len": L, "ch": ch, "assigned_later": late}
                    rec.case(case, True)
                    rec.count("c13:through-block" + (":assigned-later" if late else ""))
                    try:
                        if late:
                            spec0 = {**spec, key: [dict(it) for it in spec[key]]}
                            spec0[key][-1][fld] = "first"
                            b = lib.build(spec0, {})
                            lib.enc(b)
                            item = _last_item(kind, b)
                            attr = {"label": "label", "lens": "lens_name", "type": "camera_type", "name": "camera_name"}[fld]
                            setattr(item, attr, label)
                        else:
                            b = lib.build(spec2, {})
                        x = lib.enc(b)
                        err = None
                    except Exception as e:
                        x, err = None, e
                    if L <= width - 1:
                        if err is not None:
                            rec.violation("C13", "block:fitting-label-refused", f"{kind}.{fld} len {L}: {type(err).__name__}: {err}", case)
                            continue
                        ref = rc.encode_block(spec2)
                        if x != ref:
                            rec.violation("C13", "block:label-spills-or-misplaced",
                                          f"{kind}.{fld} len {L}: encoding differs from the layout", case)
                        b2, _ = lib.dec(kind, spec2["format"], x)
                        v = lib.view(b2, x)
                        if v[key][-1][fld] != label:
                            rec.violation("C13", "block:label-roundtrip", f"{kind}.{fld} len {L}", case)
                    else:
                        if err is None:
                            rec.violation("C13", "block:over-long-label-accepted", f"{kind}.{fld} len {L} produced {len(x)} bytes", case)
                        elif not isinstance(err, ValueError):
                            rec.violation("C13", "block:over-long-label-non-ValueError", f"{type(err).__name__}", case)
    # table entry comment
    from basictdf.basictdf import TdfEntry
    from basictdf.tdfBlock import BlockType
    from datetime import datetime
    for L in (0, 1, 254, 255, 256, 300):
        case = {"driver": "strings", "through": "entry-comment", "len": L}
        rec.case(case, True)
        rec.count("c13:through-entry")
        e = TdfEntry(BlockType.data3D, 1, 4096, 10, datetime.fromtimestamp(10 ** 9), datetime.fromtimestamp(10 ** 9),
                     datetime.fromtimestamp(10 ** 9), "k" * L)
        buf = BytesIO()
        try:
            e._write(buf)
            err = None
        except Exception as ex:
            err = ex
        if L <= 255:
            if err is not None or len(buf.getvalue()) != 288 or buf.getvalue()[32 + L] != 0:
                rec.violation("C13", "entry:comment-field", f"len {L}: err={err!r} size={len(buf.getvalue())}", case)
        elif err is None:
            rec.violation("C13", "entry:over-long-comment-accepted", f"len {L}: {len(buf.getvalue())} bytes", case)
        elif not isinstance(err, ValueError):
            rec.violation("C13", "entry:over-long-comment-non-ValueError", f"{type(err).__name__}", case)


def through_tdf(rec, rng):
    """comments of table entries written through add_block / replace_block / setters of a real file and read back
    after reopening: identical for every valid string, the empty one included"""
    import os
    from basictdf import Tdf
    from .container import small_block_spec, GETTER
    d = env.scratch_dir()
    path = str(d / f"c13_{os.getpid()}.tdf")
    valid = ["", "x", " ", "k" * 254, "é" * 255, "€uro ÿ", "tab\there", " lead", "trail ", "Generated by basicTDF"]
    for kind in ("data3D", "events", "platCal"):
        for c1 in valid:
            for how2, c2 in [("replace", c) for c in valid[:6]] + [("replace", None), ("set", None)]:
                if how2 == "set" and kind not in GETTER:
                    continue
                if os.path.exists(path):
                    os.unlink(path)
                case = {"driver": "strings", "through": "tdf-comment", "kind": kind, "first": c1, "how": how2, "second": c2}
                rec.case(case, True)
                rec.count("c13:through-tdf")
                b1 = lib.build(small_block_spec(rng, kind, 0), {})
                b2 = lib.build(small_block_spec(rng, kind, 1), {})
                bt = lib.BLOCK_TYPE[kind]

                def stored():
                    with Tdf(path) as t_:
                        return next(e.comment for e in t_.entries if e.type == bt)
                try:
                    Tdf.new(path)
                    with Tdf(path).allow_write() as t:
                        t.add_block(b1, c1)
                    got1 = stored()
                    with Tdf(path).allow_write() as t:
                        if how2 == "replace":
                            t.replace_block(b2, c2) if c2 is not None else t.replace_block(b2)
                        else:
                            setattr(t, GETTER[kind], b2)
                    got2 = stored()
                except Exception as e:
                    rec.violation("C13", "tdf:valid-comment-refused", f"{type(e).__name__}: {e}", case, exc=e)
                    continue
                rec.count("oracle:C13.comment-roundtrip-through-file")
                if got1 != c1:
                    rec.violation("C13", "tdf:comment-roundtrip", f"add_block(comment={c1[:30]!r}) reads back {got1[:30]!r}", case)
                want2 = c2 if c2 is not None else c1
                if got2 != want2:
                    rec.violation("C13", "tdf:comment-roundtrip",
                                  f"{how2}(comment={None if c2 is None else c2[:30]!r}) after {c1[:30]!r} reads back {got2[:30]!r}", case)
    if os.path.exists(path):
        os.unlink(path)


def run_shard(desc, rec):
    shard_strings(desc, rec)
    through_tdf(rec, random.Random(desc["seed"] * 7 + 1))


def replay(case, rec):
    install_contracts(rec)
    rng = random.Random(0)
    if "s" in case:
        check_write(rec, case["width"], case["s"], "replay")
    elif "bytes" in case:
        check_read(rec, case["width"], bytes.fromhex(case["bytes"]), rng)
    elif case.get("through") == "tdf-comment":
        through_tdf(rec, rng)
    else:
        through_blocks(rec, rng)
