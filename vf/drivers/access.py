"""C08 (writes only inside an explicitly write-enabled context; readers never write; handles closed)
and C17 (create / copy never clobber; bad paths refused)."""
from __future__ import annotations

import hashlib
import os
import random
import subprocess
import sys
import re

from .. import env, gen, refcodec as rc

env.bootstrap()
from .. import lib  # noqa: E402
from ..monitors import io_audit  # noqa: E402
from . import container as C  # noqa: E402

from basictdf import Tdf  # noqa: E402
from basictdf.tdfBlock import BlockType  # noqa: E402

MUTATORS = ["add_block", "remove_block", "replace_block", "set:data3D", "set:force_and_torque",
            "set:force_platforms_data", "set:events", "set:emg", "replace_block(identical)", "set(identical)"]
SETKIND = {"data3D": "data3D", "force_and_torque": "force3D", "force_platforms_data": "platData",
           "events": "events", "emg": "emg"}
READERS = ["blocks", "get_block(type)", "get_block(int)", "[]", "data3D", "force_and_torque",
           "force_platforms_data", "events", "emg", "calibrationData", "has_data3D", "has_force_and_torque",
           "has_events", "has_emg", "has_force_platforms_data", "len", "nBytes", "==", "repr", "copy"]
MODES = ["no-context", "allow_write-no-context", "readonly-context", "write-context",
         "reentered-after-write-context", "after-context-left-by-exception"]


def sha(path):
    with open(path, "rb") as f:
        return hashlib.sha256(f.read()).hexdigest()


class Boom(Exception):
    pass


def make_file(rng, state):
    """-> (path, set of kinds present)"""
    d = env.scratch_dir()
    path = str(d / f"a_{os.getpid()}_{rng.getrandbits(40):x}.tdf")
    if state == "new":
        Tdf.new(path)
        return path, set()
    nlive = {"one": 1, "some": 4, "full": 3, "holes": 4, "slack": 3}[state]
    n = {"one": 14, "some": 6, "full": 3, "holes": 7, "slack": 6}[state]
    seed = rng.getrandbits(32)
    r2 = random.Random(seed)
    data, m = C.make_initial(r2, n, nlive, 0.0, True, slack=(state == "slack"))
    if state == "holes":     # unused slots in front of used ones: a well-formed file the library reads and refuses to extend
        data, m = C.punch_hole(data, m, r2.randrange(3), r2.choice([1, 2]))
    with open(path, "wb") as f:
        f.write(data)
    return path, {rc.CODE_TYPES[t] for t in m.types() if t in rc.CODE_TYPES}


def mutator_call(rng, t, mut, present):
    """returns a thunk performing a *valid-looking* mutation and a description"""
    if mut == "add_block":
        absent = [k for k in gen.KINDS if k not in present] or gen.KINDS
        k = rng.choice(absent)
        blk = lib.build(C.small_block_spec(rng, k), {})
        return (lambda: t.add_block(blk, "c08")), f"add_block({k})", k
    if mut == "remove_block":
        k = rng.choice(sorted(present)) if present else "events"
        return (lambda: t.remove_block(lib.BLOCK_TYPE[k])), f"remove_block({k})", k
    if mut in ("replace_block(identical)", "set(identical)"):
        # put back exactly what the file already holds: nothing would change, but outside a write-enabled
        # context the call must be refused all the same
        cands = [k for k in sorted(present) if mut.startswith("replace") or k in SETKIND.values()]
        if not cands:
            k = "events"
            blk = lib.build(C.small_block_spec(rng, k), {})
        else:
            k = rng.choice(cands)
            try:
                with Tdf(t.file_path) as reader:
                    blk = reader.get_block(lib.BLOCK_TYPE[k])
            except Exception:
                blk = lib.build(C.small_block_spec(rng, k), {})
        if mut.startswith("replace"):
            return (lambda: t.replace_block(blk)), f"replace_block(<{k} as stored>)", k
        attr = next(a for a, kk in SETKIND.items() if kk == k)
        return (lambda: setattr(t, attr, blk)), f"{attr}=<{k} as stored>", k
    if mut == "replace_block":
        k = rng.choice(sorted(present)) if present else "events"
        blk = lib.build(C.small_block_spec(rng, k), {})
        return (lambda: t.replace_block(blk)), f"replace_block({k})", k
    attr = mut.split(":")[1]
    k = SETKIND[attr]
    blk = lib.build(C.small_block_spec(rng, k), {})
    return (lambda: setattr(t, attr, blk)), f"{attr}=<{k}>", k


def reader_call(rng, t, rd, present, path):
    any_kind = sorted(present)[0] if present else None
    if rd == "blocks":
        return lambda: t.blocks
    if rd == "get_block(type)":
        bt = lib.BLOCK_TYPE[any_kind] if any_kind else BlockType.temporalEventsData
        return lambda: t.get_block(bt)
    if rd == "get_block(int)":
        return lambda: t.get_block(0)
    if rd == "[]":
        return lambda: t[0]
    if rd in ("data3D", "force_and_torque", "force_platforms_data", "events", "emg", "calibrationData",
              "has_data3D", "has_force_and_torque", "has_events", "has_emg", "has_force_platforms_data", "nBytes"):
        return lambda: getattr(t, rd)
    if rd == "len":
        return lambda: len(t)
    if rd == "repr":
        return lambda: repr(t)
    if rd == "==":
        def eq():
            other = Tdf(path)
            with other:
                if t._inside_context:
                    return t == other
                with t:
                    return t == other
        return eq
    if rd == "copy":
        def cp():
            dst = path + f".copy{rng.getrandbits(30):x}"
            try:
                new = t.copy(dst)
                # the copy is a new object on a new file: without its own allow_write() a plain context on it
                # must refuse mutations and leave the copy's bytes alone
                before = sha(dst)
                blk = lib.build(C.small_block_spec(rng, "events"), {})
                refused = False
                try:
                    with new:
                        try:
                            new.add_block(blk, "via copy") if not new.has_events else new.remove_block(lib.BLOCK_TYPE["events"])
                        except Exception:
                            refused = True
                except Exception:
                    refused = True
                return ("copy-followup", refused, sha(dst) == before)
            finally:
                if os.path.exists(dst):
                    os.unlink(dst)
        return cp
    raise KeyError(rd)


class _FailingClose:
    """a file handle whose close() closes the file and then fails, as a last flush on a full disk does"""
    def __init__(self, h):
        self.__dict__["_h"] = h

    def close(self):
        self.__dict__["_h"].close()
        raise OSError(28, "injected: no space left on device")

    def __getattr__(self, name):
        return getattr(self.__dict__["_h"], name)


class Session:
    """drives one Tdf object through access modes, with the abstract permission model"""

    def __init__(self, rec, path, present, case):
        self.rec, self.path, self.present, self.case = rec, path, set(present), case
        self.t = Tdf(path)
        self.armed = "no"      # allow_write() outstanding?  no / yes / maybe
        self.inside = False
        self.ctx_w = "no"      # write permission of the current explicit context
        io_audit.watch(path)

    def close(self):
        if self.inside:
            self.exit()
        io_audit.unwatch(self.path)

    def V(self, key, msg):
        self.rec.violation("C08", key, msg, self.case)

    def allow_write(self):
        self.t.allow_write()
        self.armed = "yes"

    def enter(self):
        self._phase("enter")
        before = sha(self.path)
        self.t.__enter__()
        self.inside = True
        self.ctx_w = self.armed
        self._audit()
        self.rec.count("oracle:C08.entering-a-context-is-not-a-mutation")
        if sha(self.path) != before:
            self.V("entering-a-context-changes-bytes", f"__enter__ changed the file (armed={self.armed})")

    def exit(self, exc=False, fail_close=False):
        before = sha(self.path)
        if fail_close and self.inside and hasattr(self.t, "handler"):
            # the final flush of the context fails (disk full, file-size limit): close() closes the file and raises.
            # Whatever that does to the caller, the object is afterwards outside any context with no allow_write()
            # outstanding - what the model below assumes after every exit
            self.t.handler = _FailingClose(self.t.handler)
            self.rec.count("c08:context-left-while-close-fails")
        try:
            try:
                self._exit(exc)
            except OSError as e:
                if not (fail_close and "injected" in str(e)):
                    raise
                self.inside = False
                self.armed = "no"
                self.ctx_w = "no"
                self._phase("idle")
        finally:
            self.rec.count("oracle:C08.leaving-a-context-is-not-a-mutation")
            if sha(self.path) != before:
                self.V("leaving-a-context-changes-bytes", f"__exit__ changed the file (by exception: {exc})")

    def _exit(self, exc=False):
        if exc:
            try:
                raise Boom("left by exception")
            except Boom as e:
                self.t.__exit__(Boom, e, e.__traceback__)
        else:
            self.t.__exit__(None, None, None)
        self.inside = False
        self.armed = "no"
        self.ctx_w = "no"
        self._phase("idle")
        self._no_fd("explicit context exit")

    def _phase(self, what):
        """harness-declared phase; carries whether an allow_write() is outstanding at this moment"""
        io_audit.phase(f"{what}|{self.armed}")

    def _audit(self):
        """a write-capable open of the file is legitimate only while an allow_write() is outstanding"""
        for (p, mode, flags, writable, phase) in io_audit.drain():
            what, armed = phase.split("|") if "|" in phase else (phase, "?")
            self.rec.count(f"audit:open:{'w' if writable else 'r'}:{what.split(':')[0]}")
            if writable and armed == "no":
                self.V("write-capable-open-without-allow_write",
                       f"open({p!r}, mode={mode!r}) during {what} although no allow_write() is outstanding")

    def _no_fd(self, what):
        self.rec.count("oracle:C08.no-descriptor-left")
        fds = io_audit.fds_on(self.path)
        if fds:
            self.V("descriptor-left-open", f"after {what}: descriptors {fds} still point at the file")
            for fd in fds:
                try:
                    os.close(fd)
                except OSError:
                    pass
        h = getattr(self.t, "handler", None)
        if h is not None and not h.closed:
            self.V("handler-not-closed", f"after {what}: tdf.handler.closed is False")

    def mutate(self, rng, mut):
        thunk, desc, kind = mutator_call(rng, self.t, mut, self.present)
        before = sha(self.path)
        may_write = self.inside and self.ctx_w in ("yes", "maybe")
        must_raise = not (self.inside and self.ctx_w == "yes")
        if self.inside and self.ctx_w == "maybe":
            must_raise = False
        self._phase(("mutator-in-write-context" if may_write else "mutator-must-raise") + ":" + mut)
        err = None
        try:
            thunk()
        except Exception as e:
            err = e
        after = sha(self.path)
        self._audit()
        self.rec.count(f"c08:mutator:{'allowed' if may_write else 'forbidden'}")
        self.rec.count("oracle:C08.mutator-gated")
        if not may_write:
            if err is None:
                self.V(f"{mut}:not-refused", f"{desc} did not raise in mode inside={self.inside} ctx_w={self.ctx_w} armed={self.armed}")
            if after != before:
                self.V(f"{mut}:bytes-changed-outside-write-context",
                       f"{desc}: file changed (inside={self.inside}, ctx_w={self.ctx_w}); raised={type(err).__name__ if err else None}")
            if not self.inside:
                if self.armed == "yes":
                    self.armed = "maybe"
                self._no_fd(f"refused {desc} outside a context")
        else:
            if err is None and after != before:
                self.rec.count("c08:bytes-changed-inside-write-context")
                c = rc.parse_container(open(self.path, "rb").read())
                self.present = {rc.CODE_TYPES[e["type"]] for e in c["entries"] if e["type"] in rc.CODE_TYPES}
            elif err is not None:
                self.rec.count(f"c08:write-context-mutator-raised:{type(err).__name__}")
                if self.ctx_w == "yes" and after != before:
                    self.rec.count("c08:raised-but-changed(C07-territory)")

    def read(self, rng, rd):
        thunk = reader_call(rng, self.t, rd, self.present, self.path)
        before = sha(self.path)
        self._phase("reader-in-context" if self.inside else "reader-implicit-context")
        err = None
        res = None
        try:
            res = thunk()
        except Exception as e:
            err = e
        after = sha(self.path)
        if isinstance(res, tuple) and res and res[0] == "copy-followup":
            self.rec.count("oracle:C08.copy-is-read-only")
            if not res[1] or not res[2]:
                self.V("copy:returned-object-writable-without-allow_write",
                       f"mutation in a plain context on the object returned by copy(): refused={res[1]}, bytes unchanged={res[2]} "
                       f"(source inside={self.inside}, ctx_w={self.ctx_w}, armed={self.armed})")
        self.rec.count("oracle:C08.reader-pure")
        self.rec.count(f"c08:reader:{rd}:{'raised' if err else 'ok'}")
        if after != before:
            self.V(f"reader-changes-bytes:{rd}", f"{rd} changed the file (inside={self.inside}, ctx_w={self.ctx_w})")
        self._audit()
        if not self.inside:
            if self.armed == "yes":
                self.armed = "maybe"
            self._no_fd(f"reader {rd} outside a context")


def setup_mode(s: Session, mode):
    if mode == "no-context":
        pass
    elif mode == "allow_write-no-context":
        s.allow_write()
    elif mode == "readonly-context":
        s.enter()
    elif mode == "write-context":
        s.allow_write(); s.enter()
    elif mode == "reentered-after-write-context":
        s.allow_write(); s.enter(); s.exit(); s.enter()
    elif mode == "after-context-left-by-exception":
        s.allow_write(); s.enter(); s.exit(exc=True); s.enter()


def shard_matrix(desc, rec):
    io_audit.install()
    rng = random.Random(desc["seed"] * 41 + 3)
    for state in ("new", "one", "some", "full", "holes", "slack"):
        for mode in MODES:
            for kind_, names in (("mut", MUTATORS), ("read", READERS)):
                for name in names:
                    path, present = make_file(rng, state)
                    case = {"driver": "access", "state": state, "mode": mode, "call": name, "seed": desc["seed"]}
                    rec.case(case, True, sample=case if rng.random() < 0.01 else None)
                    s = Session(rec, path, present, case)
                    try:
                        setup_mode(s, mode)
                        if kind_ == "mut":
                            s.mutate(rng, name)
                        else:
                            s.read(rng, name)
                        rec.count(f"matrix:{mode}:{kind_}")
                    finally:
                        s.close()
                        os.unlink(path)
    rec.exhaustive["8 mutators + 20 readers x 6 access modes x 6 file states"] = True


def shard_interleave(desc, rec):
    io_audit.install()
    rng = random.Random(desc["seed"] * 43 + desc.get("shard", 0))
    for i in range(desc["n"]):
        state = rng.choice(["new", "one", "some", "full", "holes", "slack"])
        path, present = make_file(rng, state)
        steps = []
        case = {"driver": "access", "state": state, "steps": steps, "seed": desc["seed"], "index": i}
        s = Session(rec, path, present, case)
        try:
            for _ in range(rng.randint(10, 30)):
                r = rng.random()
                if r < 0.15:
                    steps.append("allow_write"); s.allow_write()
                elif r < 0.35:
                    if s.inside:
                        ex = rng.random() < 0.3
                        fc = len(steps) % 3 == 0       # every third exit or so: the closing flush fails (no random draw)
                        steps.append(("exit-exc" if ex else "exit") + ("(close fails)" if fc else "")); s.exit(ex, fail_close=fc)
                    else:
                        steps.append("enter"); s.enter()
                elif r < 0.65:
                    mut = rng.choice(MUTATORS)
                    steps.append(mut); s.mutate(rng, mut)
                else:
                    rd = rng.choice(READERS)
                    steps.append(rd); s.read(rng, rd)
            rec.case({"state": state, "steps": list(steps)}, True,
                     sample={"state": state, "steps": list(steps)} if i % 40 == 0 else None)
        finally:
            s.close()
            os.unlink(path)


STRACE_SCRIPT = r'''
import os, sys, random
sys.path.insert(0, os.environ["VF_REPO_SRC"]); sys.path.insert(0, os.environ["VF_VERIF"])
from vf.drivers import access as A
from vf.runner import Recorder
mark = os.open("/dev/null", os.O_WRONLY)
def M(s): os.write(mark, ("VFMARK " + s + "\n").encode())
rng = random.Random(int(os.environ["VF_SEED"]))
rec = Recorder("C08", "thorough", 0)
for i in range(int(os.environ["VF_N"])):
    state = rng.choice(["one", "some", "new", "holes"])
    path, present = A.make_file(rng, state)
    M("FILE " + path)
    s = A.Session(rec, path, present, {})
    for _ in range(14):
        r = rng.random()
        if r < 0.15: s.allow_write()
        elif r < 0.35:
            if s.inside: s.exit(rng.random() < 0.3)
            else:
                M("ENTER " + s.armed); s.enter(); M("ENTERED")
        elif r < 0.65:
            w = s.inside and s.ctx_w in ("yes", "maybe")
            M("MUT " + ("allowed" if w else "forbidden") + " " + s.armed); s.mutate(rng, rng.choice(A.MUTATORS)); M("END")
        else:
            M("READ " + s.armed); s.read(rng, rng.choice([x for x in A.READERS if x != "copy"])); M("END")
    s.close(); os.unlink(path)
M("DONE")
'''


def shard_strace(desc, rec):
    """OS-level observer: no write-type syscall touches a watched file inside read-only phases"""
    st = "/usr/bin/strace"
    if not os.path.exists(st):
        rec.count("strace:unavailable")
        rec.note("strace not installed; in-process observers remain deciding")
        return
    log = str(env.scratch_dir() / f"strace_{os.getpid()}.log")
    envv = dict(os.environ)
    envv.update({"VF_REPO_SRC": str(env.REPO / "src"), "VF_VERIF": str(env.VERIF), "VF_SEED": str(desc["seed"]),
                 "VF_N": str(desc["n"])})
    cmd = [st, "-f", "-y", "-s", "120", "-o", log, "-e", "trace=openat,open,write,pwrite64,ftruncate,truncate,writev,rename,unlink",
           sys.executable, "-c", STRACE_SCRIPT]
    try:
        p = subprocess.run(cmd, env=envv, capture_output=True, timeout=900)
    except subprocess.TimeoutExpired:
        rec.inconc("strace run hit its watchdog")
        return
    if not os.path.exists(log) or "VFMARK DONE" not in open(log, errors="replace").read():
        rec.count("strace:unavailable")
        rec.note("strace produced no complete log (ptrace not permitted?): " + p.stderr.decode(errors="replace")[-300:])
        return
    phase = "idle"
    armed = "no"
    cur = None
    lines = 0
    for ln in open(log, errors="replace"):
        lines += 1
        m = re.search(r'write\(\d+<[^>]*>, "VFMARK ([A-Z]+) ?([^"\\]*)', ln)
        if m:
            tag, arg = m.group(1), m.group(2).strip()
            if tag == "FILE":
                cur = arg
            elif tag == "ENTER":
                phase, armed = "enter", arg
            elif tag == "ENTERED":
                phase = "idle"
            elif tag == "MUT":
                parts = arg.split()
                phase, armed = "mut:" + parts[0], (parts[1] if len(parts) > 1 else "no")
            elif tag == "READ":
                phase, armed = "read", arg or "no"
            elif tag == "END":
                phase = "idle"
            continue
        if cur is None or cur not in ln:
            continue
        is_write = re.search(r"\b(write|pwrite64|writev|ftruncate|truncate)\(", ln) is not None
        is_wopen = re.search(r"\bopen(at)?\(.*O_(WRONLY|RDWR)", ln) is not None
        if is_write:
            rec.count(f"strace:file-write-syscalls:{phase.split(':')[0]}")
            # bytes may reach the file only inside a mutator issued in a write-enabled context
            if phase != "mut:allowed":
                rec.violation("C08", "os-level-write-outside-write-context",
                              f"phase {phase} (allow_write outstanding: {armed}): {ln.strip()[:300]}",
                              {"driver": "access-strace", "seed": desc["seed"]})
        elif is_wopen:
            rec.count(f"strace:write-capable-opens:{phase.split(':')[0]}")
            # a write-capable open is legitimate only while an allow_write() is outstanding
            if armed == "no":
                rec.violation("C08", "os-level-write-capable-open-without-allow_write",
                              f"phase {phase}: {ln.strip()[:300]}", {"driver": "access-strace", "seed": desc["seed"]})
    rec.count("strace:lines-parsed", lines)
    rec.case({"strace": desc["seed"], "n": desc["n"]}, True)
    os.unlink(log)


# ------------------------------------------------------------------------------------------------
# C17
# ------------------------------------------------------------------------------------------------
def _readings(t):
    """what a Tdf object reports through readers that open their own context"""
    out = []
    for f in (lambda: len(Tdf(t.file_path)) if False else None, lambda: int(t.nBytes), lambda: bool(t.has_events), lambda: bool(t.has_data3D),
              lambda: bool(t.has_emg), lambda: bool(t.has_force_and_torque), lambda: len(t.blocks)):
        try:
            out.append(f())
        except Exception as e:
            out.append(type(e).__name__)
    return out


def shard_create_copy(desc, rec):
    io_audit.install()
    rng = random.Random(desc["seed"] * 47 + desc.get("shard", 0))
    d = env.scratch_dir()

    def V(key, msg, case):
        rec.violation("C17", key, msg, case)
    for i in range(desc["n"]):
        tstate = ["absent", "tdf", "non-tdf", "empty", "directory"][i % 5]
        which = ["new", "copy"][(i // 5) % 2]
        sub = d / f"dir_{os.getpid()}_{i}"          # a directory of its own: nothing else in it may change
        sub.mkdir()
        suffix = rng.choice([".tdf", ".tdf", "", ".TDF", ".bak", ".tdf.tmp"])
        stem = f"t_{rng.getrandbits(20):x}"
        target = str(sub / (stem + suffix))
        siblings = {}
        for sname in {stem + ".tdf", stem, stem + ".TDF", stem + suffix + ".tdf", stem + ".bak", stem + ".tmp", stem + suffix + ".tmp",
                      stem + suffix + "~", "." + stem + suffix + ".tmp", stem + ".new", stem + suffix + ".part"} - {stem + suffix}:
            if rng.random() < 0.6:
                content = rng.choice([b"", b"sibling", rc.encode_container(2, [])])
                (sub / sname).write_bytes(content)
                siblings[sname] = content
        case = {"driver": "create-copy", "target": tstate, "call": which, "seed": desc["seed"], "index": i}
        rec.case({"t": tstate, "w": which, "i": i}, True, sample=case if i % 37 == 0 else None)
        # source: a file reached by a short history
        src = str(d / f"s_{os.getpid()}_{i}.tdf")
        init = C.describe_init(rng, allow_holes=False)
        if tstate == "absent" and which == "copy" and rng.random() < desc.get("big_p", 0.0):
            # a source larger than any plausible copy buffer (4 MiB + a bit, 9 MiB)
            init = {"how": "foreign", "n": 4, "nlive": 2, "seed": rng.getrandbits(32), "opaque_p": 1.0, "scramble": False,
                    "sizes": [rng.choice([(4 << 20) + 12345, (9 << 20) + 1, (1 << 22), (8 << 20)]), 1000], "_types": [], "_opaque": []}
            rec.count("c17:big-source")
        ops = C.random_history(rng, rng.randint(0, 20), init=init) if "sizes" not in init else []
        h = C.History(rec, [], init, ops, "c17-source")
        h.states, h.trans, h.faults = set(), set(), set()
        h.setup()
        h.enter(True)
        for j, o in enumerate(ops):
            if h.stopped:
                break
            h.step = j
            try:
                h.do(o)
            except Exception:
                break
        h.leave()
        os.replace(h.path, src)
        tb = None
        if tstate == "tdf":
            tb = rc.encode_container(14, [], 1, (10 ** 9,) * 3, (10 ** 9,) * 3, "Generated by basicTDF")
            open(target, "wb").write(tb)
        elif tstate == "non-tdf":
            tb = bytes(rng.getrandbits(8) for _ in range(rng.randint(1, 5000)))
            open(target, "wb").write(tb)
        elif tstate == "empty":
            tb = b""
            open(target, "wb").write(tb)
        elif tstate == "directory":
            os.mkdir(target)
        # now and then the target is given as a bare relative name while the working directory is the target's
        # directory (and not the source's): the file has to appear where the caller said
        rel_cwd = None
        call_target = target
        if tstate == "absent" and rng.random() < 0.25:
            rel_cwd = os.getcwd()
            os.chdir(sub)
            call_target = os.path.basename(target)
            rec.count("c17:relative-target-from-another-cwd")
        io_audit.watch(target)
        io_audit.drain()
        io_audit.phase("create:" + which)
        import time as _t
        t0 = int(_t.time()) - 1
        err, res = None, None
        readings_inside = None
        src_at_copy = None
        copy_how = "outside-context"
        try:
            if which == "new":
                res = Tdf.new(call_target)
            else:
                # the source may be copied from outside a context, from inside a read-only or a write context, and
                # also after *another* Tdf object has changed the file since this one entered its context: the
                # copy must always be the file as it is on disk at the time of the call
                copy_how = rng.choice(["outside-context", "outside-context", "inside-readonly-context",
                                       "inside-write-context-after-own-mutation",
                                       "inside-readonly-context-after-mutation-by-another-object"])
                a = Tdf(src)

                def some_mutation(t):
                    ents = [e for e in t.entries if e.type != BlockType.unusedSlot]
                    here_ = {e.type for e in ents}
                    k_ = next((k for k in gen.KINDS if lib.BLOCK_TYPE[k] not in here_), None)
                    if k_ and len(ents) < len(t.entries) and all(e.type == BlockType.unusedSlot for e in t.entries[len(ents):]):
                        t.add_block(lib.build(C.small_block_spec(rng, k_, 1), {}), "added before the copy")
                    elif ents:
                        t.remove_block(ents[-1].type)
                if copy_how == "outside-context":
                    res = a.copy(call_target)
                elif copy_how == "inside-readonly-context":
                    with a:
                        res = a.copy(call_target)
                elif copy_how == "inside-write-context-after-own-mutation":
                    with a.allow_write():
                        try:
                            some_mutation(a)
                        except Exception:
                            pass
                        res = a.copy(call_target)
                        if rng.random() < 0.5:
                            # the original goes on changing inside the same context: what the returned object reports
                            # (through its own implicit contexts) stays what the copy holds.  (Byte identity is judged
                            # in the other half of the cases, where the source does not change after the copy.)
                            src_at_copy = "source changed after the copy"
                            try:
                                some_mutation(a)
                            except Exception:
                                pass
                            readings_inside = _readings(res)
                else:
                    with a:
                        try:
                            with Tdf(src).allow_write() as other:
                                some_mutation(other)
                        except Exception:
                            pass
                        res = a.copy(call_target)
                rec.count(f"c17:copy:{copy_how}")
        except Exception as e:
            err = e
        finally:
            if rel_cwd is not None:
                os.chdir(rel_cwd)
                if err is None and os.path.isfile(target):
                    res = Tdf(target)      # (an object holding a relative path means another file from here)
        t1 = int(_t.time()) + 1
        opens = io_audit.drain()
        io_audit.unwatch(target)
        rec.count(f"c17:{which}:{tstate}")
        if which == "copy" and err is None and tstate == "absent" and os.path.isfile(target):
            rec.count("oracle:C17.returned-object-reads-the-copy")
            want_r = _readings(Tdf(target))
            obs = [("after the call", _readings(res))]
            if readings_inside is not None:
                obs.append(("inside the source's context, after the source changed again", readings_inside))
            for when_, got_r in obs:
                if got_r != want_r:
                    V("copy:returned-object-does-not-read-the-copy",
                      f"[{copy_how}] {when_}: the object returned by copy() reports (len, nBytes, has_*) = {got_r}, "
                      f"a fresh object on the copy reports {want_r}", case)
                    break
            if res is a or str(getattr(res, "file_path", "")) != str(Tdf(target).file_path):
                V("copy:returned-object-does-not-read-the-copy", f"[{copy_how}] returned object is the source or points elsewhere", case)
        if tstate != "absent":
            rec.count("oracle:C17.existing-target-refused")
            if not isinstance(err, FileExistsError):
                V(f"{which}:existing-{tstate}-not-refused",
                  f"{which} onto an existing {tstate} target: {'returned ' + repr(res) if err is None else type(err).__name__ + ': ' + str(err)}", case)
            if tstate != "directory":
                now = open(target, "rb").read()
                if now != tb:
                    V(f"{which}:existing-target-clobbered", f"target bytes changed ({len(tb)} -> {len(now)})", case)
            if any(w for (_p, _m, _f, w, _ph) in opens):
                V(f"{which}:existing-target-opened-for-writing", f"{opens}", case)
        else:
            if err is not None:
                V(f"{which}:absent-target-refused", f"{type(err).__name__}: {err}", case)
            elif not os.path.isfile(target):
                V(f"{which}:file-not-created-at-the-given-path",
                  f"{os.path.basename(target)!r} does not exist after the call; directory holds {sorted(p_.name for p_ in sub.iterdir())}", case)
            else:
                data = open(target, "rb").read()
                if which == "new":
                    rec.count("oracle:C17.new-is-canonical-empty")
                    c = rc.parse_container(data)
                    probs = rc.wellformed(c, 14, 1) + rc.compact(c) if "n" in c else ["unparseable"]
                    if len(data) != 4096:
                        probs.append(f"length {len(data)} != 4096")
                    if "n" in c:
                        if any(e["type"] != 0 or e["offset"] != 4096 or e["size"] != 0 for e in c["entries"]):
                            probs.append("slots are not all unused at 4096")
                        if c["reserved0"] != b"\0" * 8 or c["reserved1"] != b"\0" * 20:
                            probs.append("reserved header words not zero")
                        for k in ("cdate", "mdate", "adate"):
                            if not (t0 <= c[k] <= t1):
                                probs.append(f"header {k}={c[k]} outside the call window [{t0},{t1}]")
                    if probs:
                        V("new:not-canonical-empty-container", "; ".join(probs[:4]), case)
                    if not isinstance(res, Tdf):
                        V("new:does-not-return-Tdf", repr(res), case)
                else:
                    rec.count("oracle:C17.copy-identical-and-independent")
                    if src_at_copy is None and data != open(src, "rb").read():
                        V("copy:not-byte-identical", f"[{copy_how}] copy has {len(data)} bytes, source {os.path.getsize(src)}", case)
                    if os.path.samefile(src, target) or os.stat(src).st_ino == os.stat(target).st_ino:
                        V("copy:not-independent", "copy and original are the same file (link)", case)
                    else:
                        # mutate one side; the other must stay
                        side = rng.choice(["copy", "orig"])
                        a, b = (target, src) if side == "copy" else (src, target)
                        bb = sha(b)
                        try:
                            with (res if side == "copy" else Tdf(src)).allow_write() as t:
                                ents = [e for e in t.entries if e.type != BlockType.unusedSlot]
                                if ents and rng.random() < 0.5:
                                    t.remove_block(ents[0].type)
                                else:
                                    kinds_here = {e.type for e in ents}
                                    k = next((k for k in gen.KINDS if lib.BLOCK_TYPE[k] not in kinds_here), None)
                                    if k and len(ents) < len(t.entries):
                                        t.add_block(lib.build(C.small_block_spec(rng, k), {}))
                        except Exception as e:
                            rec.count(f"c17:followup-mutation-raised:{type(e).__name__}")
                        if sha(b) != bb:
                            V("copy:not-independent", f"mutating the {side} changed the other file", case)
                        rec.count("c17:independence-checked")
        # nothing else in the directory may have been created, removed or changed
        rec.count("oracle:C17.directory-otherwise-untouched")
        now = {p_.name: (p_.read_bytes() if p_.is_file() else None) for p_ in sub.iterdir()}
        expect_names = set(siblings) | ({os.path.basename(target)} if (tstate != "absent" or err is None) else set())
        if set(now) - {os.path.basename(target)} != set(siblings):
            V(f"{which}:creates-or-removes-other-files", f"directory holds {sorted(now)}, expected {sorted(expect_names)}", case)
        for sname, content in siblings.items():
            if sname in now and now[sname] != content:
                V(f"{which}:clobbers-a-sibling-file", f"{sname} changed ({len(content)} -> {len(now[sname] or b'')} bytes) "
                  f"when the target was {os.path.basename(target)!r}", case)
        for p in [src] + [str(x) for x in sub.iterdir()]:
            if os.path.isdir(p):
                os.rmdir(p)
            elif os.path.exists(p):
                os.unlink(p)
        sub.rmdir()
    # targets that already exist under *another spelling*: the source itself, a dotted path to it, a hard link or a
    # symbolic link to it (copy), or such a path to some existing file (new).  All are existing targets.
    for i in range(desc.get("n_alias", max(8, desc["n"] // 8))):
        which = ["copy", "copy", "new"][i % 3]
        how = ["same-path", "dotdot-path", "hard-link", "symlink", "relative-path"][(i // 3) % 5]
        sub = d / f"alias_{os.getpid()}_{i}"
        sub.mkdir()
        (sub / "inner").mkdir()
        src = str(sub / "orig.tdf")
        data0, _m = C.make_initial(rng, rng.choice([3, 14]), rng.randint(0, 3))
        open(src, "wb").write(data0)
        case = {"driver": "create-copy", "alias": how, "call": which, "seed": desc["seed"], "index": i}
        rec.case({"alias": how, "w": which, "i": i}, True, sample=case if i % 7 == 0 else None)
        cwd = os.getcwd()
        if how == "same-path":
            target = src
        elif how == "dotdot-path":
            target = str(sub / "inner" / ".." / "orig.tdf")
        elif how == "hard-link":
            target = str(sub / "link.tdf")
            os.link(src, target)
        elif how == "symlink":
            target = str(sub / "sym.tdf")
            os.symlink(src, target)
        else:
            os.chdir(sub)
            target = "orig.tdf"
        io_audit.watch(src)
        io_audit.drain()
        io_audit.phase("alias:" + which)
        err = res = None
        try:
            if which == "new":
                res = Tdf.new(target)
            else:
                a = Tdf(src)
                if rng.random() < 0.5:
                    res = a.copy(target)
                else:
                    with a:
                        res = a.copy(target)
        except Exception as e:
            err = e
        finally:
            os.chdir(cwd)
        opens = io_audit.drain()
        io_audit.unwatch(src)
        rec.count(f"c17:alias:{which}:{how}")
        rec.count("oracle:C17.existing-target-refused")
        if not isinstance(err, FileExistsError):
            V(f"{which}:existing-target-under-another-spelling-not-refused",
              f"{which} onto {how} of an existing file: {'returned ' + type(res).__name__ if err is None else type(err).__name__ + ': ' + str(err)}", case)
        if open(src, "rb").read() != data0:
            V(f"{which}:existing-target-clobbered", f"[{how}] the existing file changed", case)
        if any(w for (_p, _m2, _f, w, _ph) in opens):
            V(f"{which}:existing-target-opened-for-writing", f"[{how}] {opens}", case)
        names = sorted(p_.name for p_ in sub.iterdir())
        want = sorted({"inner", "orig.tdf"} | ({os.path.basename(target)} if how in ("hard-link", "symlink") else set()))
        if names != want:
            V(f"{which}:creates-or-removes-other-files", f"[{how}] directory holds {names}, expected {want}", case)
        import shutil as _sh
        _sh.rmtree(sub, ignore_errors=True)
    # opening bad paths
    for i in range(desc.get("n_open", 40)):
        what = ["absent", "empty", "garbage", "short-signature", "signature-prefix-only", "almost-signature"][i % 6]
        p = str(d / f"o_{os.getpid()}_{i}.tdf")
        case = {"driver": "open-bad", "what": what, "index": i}
        rec.case({"open": what, "i": i}, True)
        if what == "absent":
            rec.count("oracle:C17.open-absent")
            try:
                Tdf(p)
                V("open:absent-path-accepted", "Tdf(absent path) did not raise", case)
            except FileNotFoundError:
                pass
            except Exception as e:
                V("open:absent-path-wrong-exception", f"{type(e).__name__}", case)
            continue
        sig = rc.SIGNATURE
        body = rc.encode_container(3, [])[16:]
        content = {"empty": b"", "garbage": bytes(rng.getrandbits(8) for _ in range(rng.randint(1, 6000))),
                   "short-signature": sig[:rng.randint(1, 15)],
                   "signature-prefix-only": sig[:8] + bytes(rng.getrandbits(8) for _ in range(8)) + body,
                   "almost-signature": bytes([sig[0] ^ (1 << rng.randint(0, 7))]) + sig[1:] + body
                   if rng.random() < 0.5 else sig[:15] + bytes([sig[15] ^ 1]) + body}[what]
        open(p, "wb").write(content)
        rec.count("oracle:C17.open-non-tdf")
        try:
            t = Tdf(p)
            with t:
                got = (t.nEntries, len(t.entries))
            V(f"open:non-tdf-yields-data:{what}", f"context entered on a {what} file: {got}", case)
        except Exception:
            pass
        # the same path, but the Tdf object was created (and used) while it still held a TDF file
        open(p, "wb").write(rc.encode_container(3, []))
        t_old = Tdf(p)
        if i % 2:
            with t_old:
                pass
        st_ = os.stat(p)
        open(p, "wb").write(content)
        if len(content) == st_.st_size:
            # replaced in place by as many bytes, modification time put back: same inode, size and mtime as the TDF file
            os.utime(p, ns=(st_.st_atime_ns, st_.st_mtime_ns))
            rec.count("c17:non-tdf-bytes-with-the-inode-size-and-mtime-of-the-tdf-file")
        rec.count("oracle:C17.open-non-tdf(object created earlier)")
        # (len(tdf) is not among them: it never opens the path - outside a context it reports the table of the last
        # context, which says nothing about what the path holds now)
        # every attempt is judged, also the ones that follow a refused attempt on the same object (a refusal must not
        # leave the object in a state in which it answers from what it parsed earlier)
        attempts = [("with", lambda: t_old.__enter__() and (t_old.nEntries, len(t_old.entries))), ("len(blocks)", lambda: len(t_old.blocks)),
                    ("has_events", lambda: t_old.has_events), ("has_data3D", lambda: t_old.has_data3D),
                    ("get_block(0)", lambda: t_old.get_block(0)), ("events", lambda: t_old.events)]
        rng.shuffle(attempts)
        for q_, (how_, fn_) in enumerate(attempts[:4] * 2):
            rec.count("oracle:C17.open-non-tdf:attempt-on-one-object")
            try:
                got = fn_()
                V(f"open:non-tdf-yields-data:{what}", f"{how_} (attempt {q_ + 1} on one object created while the path still held a TDF "
                  f"file, now a {what} file; earlier attempts were refused): {got!r}", case)
                try:
                    if getattr(t_old, "_inside_context", False):
                        t_old.__exit__(None, None, None)
                except Exception:
                    pass
                break
            except Exception:
                pass
        fds = io_audit.fds_on(p)
        if fds:
            rec.count("c17:fd-left-after-refused-open(not judged)")
            for fd in fds:
                os.close(fd)
        os.unlink(p)


SHARDS = {"matrix": shard_matrix, "interleave": shard_interleave, "strace": shard_strace,
          "create-copy": shard_create_copy}


def run_shard(desc, rec):
    SHARDS[desc["kind"]](desc, rec)


def replay(case, rec):
    if case.get("driver") == "access" and "mode" in case:
        io_audit.install()
        rng = random.Random(case.get("seed", 0))
        path, present = make_file(rng, case["state"])
        s = Session(rec, path, present, case)
        try:
            setup_mode(s, case["mode"])
            if case["call"] in MUTATORS:
                s.mutate(rng, case["call"])
            else:
                s.read(rng, case["call"])
        finally:
            s.close()
            os.unlink(path)
    elif case.get("driver") == "access":
        shard_interleave({"seed": case["seed"], "n": case["index"] + 1}, rec)
    elif case.get("driver") in ("create-copy", "open-bad"):
        shard_create_copy({"seed": case.get("seed", 0), "n": case.get("index", 0) + 1}, rec)
