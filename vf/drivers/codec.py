"""Shared workload + oracles for the codec-layer properties C01, C02, C05, C06, C12.

One generated case = (spec, variant).  Every oracle is tagged with the property it belongs to;
a check only *reports* its own property's oracle, the others are listed in the evidence.
"""
from __future__ import annotations

import itertools
import random
import time
import warnings

import numpy as np

from .. import env, gen, refcodec as rc
from ..runner import jhash

env.bootstrap()
from .. import lib  # noqa: E402
from ..monitors import codec as codec_mon  # noqa: E402

warnings.filterwarnings("ignore", category=RuntimeWarning)


def _brief(spec):
    """shrunk copy of a spec for evidence samples"""
    def cut(v, depth=0):
        if isinstance(v, dict):
            return {k: cut(x, depth + 1) for k, x in v.items()}
        if isinstance(v, list):
            if len(v) > 6:
                return [cut(x, depth + 1) for x in v[:5]] + [f"... {len(v) - 5} more"]
            return [cut(x, depth + 1) for x in v]
        return v
    return cut(spec)


def _first_diff(a: bytes, b: bytes):
    n = min(len(a), len(b))
    for i in range(n):
        if a[i] != b[i]:
            return i
    return n if len(a) != len(b) else None


def _span_at(spans, pos):
    for s, e, kind, name in spans:
        if s <= pos < e:
            return f"{name}({kind})"
    return "?"


def mask_of(frames):
    return [f is not None for f in frames]


def tracks_of(spec):
    return spec[lib.ITEMS_KEY[spec["t"]]]


def run_case(rec, spec, variant, rng, oracles=("C01", "C02", "C05", "C06", "C12"), tag="random",
             scr_k=1, regen=None, obj=None, case_override=None):
    """execute one block case against the real code and evaluate the oracles.
    obj: an already existing library object whose current state is described by spec (in-place edit workload)"""
    kind = spec["t"]
    case = case_override or {"driver": "codec", "spec": spec, "variant": variant}
    small = len(str(spec)) < 4000
    casek = case if (small or case_override) else {"driver": "codec", "spec_hash": jhash(spec), "regen": regen,
                                                   "variant": variant, "note": "spec too large to inline; regenerated on replay"}
    ni = lib.nitems(spec)
    h = rec.case({"s": jhash(spec), "v": variant}, nontrivial=ni > 0,
                 sample={"kind": kind, "variant": variant, "spec": _brief(spec)} if rec.evaluations % 97 == 0 else None)
    rec.count(f"cases:{kind}")
    rec.count(f"cases:{kind}:fmt{spec['format']}")
    rec.count(f"workload:{tag}")

    def V(prop, key, msg, exc=None):
        if prop in oracles:
            rec.violation(prop, f"{kind}:{key}", msg, casek, exc=exc)

    try:
        b = obj if obj is not None else lib.build(spec, variant)
    except Exception as e:
        rec.count("build_refused")
        rec.note(f"constructor refused a generated valid {kind} spec: {type(e).__name__}: {e}")
        V("C01", "constructor-refuses-valid-block", f"{type(e).__name__}: {e}", exc=e)
        return
    try:
        nb = int(b.nBytes)
        x1 = lib.enc(b)
    except Exception as e:
        V("C01", "encode-raises", f"encoding a valid {kind} block raised {type(e).__name__}: {e}", exc=e)
        return
    v0 = lib.view(b, x1)
    d = rc.spec_diff(spec, v0)
    if d:
        V("C01", "constructed-block-differs-from-arguments", d)

    # ---- C02 declared == written ------------------------------------------------------------
    rec.count("oracle:C02.declared==written")
    if nb != len(x1):
        V("C02", "declared!=written", f"nBytes={nb} but _write produced {len(x1)} bytes (variant {variant})")

    # ---- C06 encode direction ----------------------------------------------------------------
    xr = rc.encode_block(spec)
    rec.count("oracle:C06.encode==reference")
    if xr != x1:
        pos = _first_diff(xr, x1)
        try:
            _, spans, _ = rc.decode_block(kind, spec["format"], xr)
            where = _span_at(spans, pos)
        except Exception:
            where = "?"
        V("C06", "encode-differs-from-layout",
          f"library bytes differ from the reference encoder at offset {pos} ({where}); "
          f"len lib={len(x1)} ref={len(xr)}")

    # ---- C05 encode side: segment tables in the bytes ------------------------------------------
    ref_ok = True
    try:
        sref, spans1, aux1 = rc.decode_block(kind, spec["format"], x1)
    except Exception as e:
        ref_ok = False
        V("C06", "library-bytes-not-layout-conformant", f"reference decoder cannot read library output: {e}")
    if ref_ok and kind in lib.RLE_KINDS:
        for ti, (tr, segs) in enumerate(zip(tracks_of(spec), aux1["segs"])):
            want = rc.runs(mask_of(tr["frames"]))
            rec.count("oracle:C05.segments==maximal-runs")
            rec.count(f"c05:{kind}:tracks")
            if [tuple(s) for s in segs] != want:
                V("C05", "segment-table-not-maximal-runs",
                  f"track {ti}: mask runs {want[:8]} but bytes carry segments {segs[:8]}")
    if ref_ok:
        d = rc.spec_diff(spec, sref)
        if d:
            V("C06", "library-bytes-decode-to-other-values", "reference decode of library bytes: " + d)

    # ---- decode through the library (embedded in a stream with garbage around) ----------------
    prefix = bytes(rng.getrandbits(8) for _ in range(rng.choice([0, 1, 7, 64])))
    suffix = bytes(rng.getrandbits(8) | 1 for _ in range(rng.choice([0, 3, 40])))
    try:
        b2, used = lib.dec(kind, spec["format"], x1, prefix, suffix)
    except Exception as e:
        V("C01", "decode-raises", f"decoding the library's own encoding raised {type(e).__name__}: {e}", exc=e)
        return
    rec.count("oracle:C02.consumed==written")
    if used != len(x1):
        V("C02", "consumed!=written", f"_build consumed {used} bytes of a {len(x1)}-byte encoding")
    try:
        nb2 = int(b2.nBytes)
        x2 = lib.enc(b2)
    except Exception as e:
        V("C01", "reencode-raises", f"re-encoding the decoded block raised {type(e).__name__}: {e}", exc=e)
        return
    if nb2 != len(x1):
        V("C02", "decoded-declared!=consumed", f"decoded block declares nBytes={nb2}, encoding has {len(x1)}")
    v1 = lib.view(b2, x2)
    rec.count("oracle:C01.fields-roundtrip")
    d = rc.spec_diff(v0, v1)
    if d:
        gap = "NoneType" in d or "nan" in d
        V("C01", "decoded-fields-differ" + ("(gap-frames)" if gap else ""), d)
        if kind in lib.RLE_KINDS and gap:
            V("C05", "gap-frame-not-NaN-or-present-frame-lost", d)
    rec.count("oracle:C01.reencode-identical")
    if x2 != x1:
        pos = _first_diff(x1, x2)
        V("C01", "reencode-differs", f"enc(dec(enc(b))) differs from enc(b) at offset {pos}; lengths {len(x1)} vs {len(x2)}")

    # ---- C05 decode side: determinism + NaN on gaps (explicit, independent of view) -------------
    if kind in lib.RLE_KINDS and "C05" in oracles:
        b3, _ = lib.dec(kind, spec["format"], x1)
        v3 = lib.view(b3)
        rec.count("oracle:C05.decode-deterministic")
        d = rc.spec_diff(v1, v3)
        if d:
            V("C05", "two-decodes-differ", d)
        for ti, tr in enumerate(tracks_of(spec)):
            got = tracks_of(v1)[ti]["frames"] if ti < len(tracks_of(v1)) else None
            if got is None:
                continue
            for fi, f in enumerate(tr["frames"]):
                if f is None:
                    rec.count("c05:gap-frames-checked")
                    if got[fi] is not None:
                        V("C05", "gap-frame-not-NaN",
                          f"track {ti} frame {fi} is a gap but decodes to {got[fi]}")
                        break

    # ---- C06 decode direction / C12: scrambled don't-care bytes ---------------------------------
    if ("C06" in oracles or "C12" in oracles):
        try:
            _, spansr, _ = rc.decode_block(kind, spec["format"], xr)
        except Exception as e:
            rec.inconc(f"reference codec cannot decode its own output: {e}")
            return
        ndc = sum(e - s for s, e, k, _ in spansr if k in rc.DONTCARE)
        for j in range(scr_k):
            mode = ["random", "ff", "text", "smallint", "floats"][(j + rec.evaluations) % 5]
            xs = rc.scramble(xr, spansr, rng, mode)
            rec.count("c12:dontcare-bytes-scrambled", ndc)
            try:
                bs, used_s = lib.dec(kind, spec["format"], xs, b"", b"\xa5\xa5")
            except Exception as e:
                V("C06", "layout-conformant-bytes-rejected",
                  f"{type(e).__name__}: {e} decoding reference bytes ({mode} don't-care)", exc=e)
                V("C12", "dontcare-bytes-break-decoding", f"{type(e).__name__}: {e} ({mode})", exc=e)
                continue
            xs2 = lib.enc(bs)
            vs = lib.view(bs, xs2)
            rec.count("oracle:C06.decode==reference")
            d = rc.spec_diff(spec, vs)
            if d:
                V("C06", "decode-differs-from-layout", f"({mode} don't-care bytes) " + d)
            if used_s != len(xs):
                V("C06", "conformant-bytes-not-consumed-exactly", f"consumed {used_s} of {len(xs)}")
            rec.count("oracle:C12.content-independent-of-dontcare")
            d = rc.spec_diff(v1, vs)
            if d and ndc:
                V("C12", "dontcare-bytes-change-content", f"({mode}) " + d)
            rec.count("oracle:C12.reencode-canonical")
            if xs2 != x2 and ndc:
                pos = _first_diff(xs2, x2)
                V("C12", "dontcare-bytes-change-reencoding",
                  f"({mode}) re-encodings differ at {pos}; lengths {len(xs2)} vs {len(x2)}")
            if kind in ("data3D", "force3D", "emg", "events") and "C12" in oracles:
                # lookups by label on the block read from the scrambled bytes answer as on the clean one
                items_s = list(bs) if kind != "events" else list(bs.events)
                for it_s in items_s[:4]:
                    lab = it_s.label
                    rec.count("oracle:C12.label-lookup-independent-of-dontcare")
                    try:
                        hit, inn = bs[lab], (lab in bs)
                    except Exception as e:
                        V("C12", "dontcare-bytes-break-label-lookup", f"({mode}) [{lab[:30]!r}] raised {type(e).__name__}: {e}")
                        break
                    first = next(x for x in items_s if x.label == lab)
                    if hit is not first or not inn:
                        V("C12", "dontcare-bytes-break-label-lookup", f"({mode}) [{lab[:30]!r}] is not the first item with that label / not contained")
                        break
            try:
                eq = bool(bs == b2)
                rec.count("c12:equality-evaluated")
            except Exception:
                eq = None
            if eq is False and not d:
                rec.count("c12:equal-content-compares-unequal(C14-territory)")
        # decode direction, a writer that emits the segment records in another order: the layout fixes each record
        # and that the data follow in table order - frames inside the runs carry their value, all others are NaN
        if kind in lib.RLE_KINDS and ("C06" in oracles or "C05" in oracles):
            xu = rc.encode_block_unsorted_segments(spec, rng)
            if xu != xr:
                rec.count("oracle:C06.decode-unsorted-segment-table")
                try:
                    bu, used_u = lib.dec(kind, spec["format"], xu, b"", b"\xa5")
                    vu = lib.view(bu)
                except Exception as e:
                    V("C06", "layout-conformant-bytes-rejected",
                      f"{type(e).__name__}: {e} decoding a block whose segment records are not in frame order", exc=e)
                    vu = None
                if vu is not None:
                    d = rc.spec_diff({k_: v_ for k_, v_ in spec.items() if k_ != "map"}, {k_: v_ for k_, v_ in vu.items() if k_ != "map"})
                    if d:
                        V("C06", "decode-differs-from-layout", "(segment records not in frame order) " + d)
                        V("C05", "gap-frame-not-NaN-or-present-frame-lost", "(segment records not in frame order) " + d)
                    if used_u != len(xu):
                        V("C06", "conformant-bytes-not-consumed-exactly", f"consumed {used_u} of {len(xu)} (unsorted segment records)")




def run_edit_case(rec, spec, variant, edit_seed, n_edits, oracles, scr_k=1):
    """build, use once (encode / size / compare - whatever might be cached), then edit in place through the
    public attributes and demand every codec property of the new state"""
    from . import edits
    erng = random.Random(edit_seed)
    rng = random.Random(edit_seed ^ 0x5EED)
    try:
        b = lib.build(spec, variant)
        x0 = lib.enc(b); int(b.nBytes)
        if erng.random() < 0.4:    # edit an object that came out of the decoder instead of one built by hand
            b, _ = lib.dec(spec["t"], spec["format"], x0)
            rec.count("edit:on-decoded-object")
        try:
            bool(b == b)
        except Exception:
            pass
    except Exception:
        return
    cur = spec
    for k in range(n_edits):
        try:
            r = edits.inplace_edit(erng, b, cur)
        except Exception as e:
            rec.count(f"edit-refused:{type(e).__name__}")
            return
        if r is None:
            continue
        name, cur = r
        rec.count(f"edit:{name}")
        case = {"driver": "codec-edit", "spec": spec if len(str(spec)) < 6000 else None, "variant": variant,
                "edit_seed": edit_seed, "n_edits": k + 1, "last_edit": name}
        run_case(rec, cur, variant, rng, oracles, "in-place-edit", scr_k, obj=b, case_override=case)
        try:
            bool(b == b)
        except Exception:
            pass


# ------------------------------------------------------------------------------------------------
# shard kinds
# ------------------------------------------------------------------------------------------------
def shard_random(desc, rec):
    codec_mon.install(rec)
    rng = random.Random(desc["seed"] * 1000003 + desc["shard"])
    grng = random.Random(desc["seed"] * 1000003 + desc["shard"] + 500009)
    sel = random.Random(desc["seed"] * 1000003 + desc["shard"] + 700001)
    kinds = desc.get("kinds", gen.KINDS)
    n = desc.get("n", 100)
    deadline = time.time() + desc["budget_s"] if desc.get("budget_s") else None
    i = 0
    while True:
        if deadline is None and i >= n:
            break
        if deadline is not None and (time.time() > deadline or i >= desc.get("max_n", 10 ** 9)):
            break
        kind = kinds[i % len(kinds)]
        spec = gen.gen_spec(grng, kind, big=desc.get("big", False))
        variant = gen.gen_variant(grng, kind)
        if desc.get("inf"):
            spec = gen.inject_inf(grng, spec)
        run_case(rec, spec, variant, rng, tuple(desc["oracles"]), "random", desc.get("scr_k", 1),
                 regen={"seed": desc["seed"], "shard": desc["shard"], "index": i, "kinds": kinds,
                        "big": desc.get("big", False)})
        if sel.random() < 0.4 and len(str(spec)) < 20000:
            run_edit_case(rec, spec, variant, sel.getrandbits(48), sel.choice([1, 2, 3]), tuple(desc["oracles"]),
                          desc.get("scr_k", 1))
        i += 1


def all_masks(n):
    for bits in itertools.product([False, True], repeat=n):
        yield list(bits)


def shard_sweep(desc, rec):
    """structured sweep: items 0..3 x frames x all masks of <= maxn frames x formats"""
    codec_mon.install(rec)
    rng = random.Random(desc["seed"] * 7 + 13)
    maxn = desc.get("mask_n", 5)
    kinds = desc.get("kinds", lib.RLE_KINDS)
    for kind in kinds:
        fmts = [1, 2] if kind == "data3D" else [None]
        for fm in fmts:
            for n in range(1, maxn + 1):
                for mask in all_masks(n):
                    for nit in desc.get("items", [1, 2]):
                        spec = gen.small_spec(kind, nit, n, mask, fm, seed=desc["seed"])
                        if nit >= 2:  # independent masks per track
                            w = {"data3D": 3, "emg": 1, "force3D": 9, "platData": 6}[kind]
                            key = lib.ITEMS_KEY[kind]
                            for tr in spec[key][1:]:
                                tr["frames"] = gen.rframes(rng, gen.rmask(rng, n), w)
                        run_case(rec, spec, {"dtype": "f4" if (n + nit) % 2 else "f8"}, rng,
                                 tuple(desc["oracles"]), "sweep")
    rec.exhaustive[f"presence masks of 1..{maxn} frames for {','.join(kinds)}"] = True
    # long recordings: runs of 2^16 and more frames that do not start at frame 0 (a minute of EMG at 1 kHz with its
    # first samples missing), and an exact 2^16-frame run - where chunked writers / readers change their path
    if desc.get("long", True) and not desc.get("kinds_only_small"):
        K = 1 << 16
        for kind in kinds:
            w = {"data3D": 3, "emg": 1, "force3D": 9, "platData": 6}[kind]
            shapes_ = [(K + 700, [(10, K + 690)])]
            if kind in ("emg", "data3D"):
                shapes_ += [(K + 9, [(3, K)]), (2 * K + 50, [(0, 5), (7, K + 1), (K + 20, K + 25)])]
            for n, rs in shapes_:
                mask = [False] * n
                for a_, l_ in rs:
                    mask[a_:a_ + l_] = [True] * l_
                spec = gen.small_spec(kind, 1, 2, [True, True], seed=desc["seed"])
                key = lib.ITEMS_KEY[kind]
                spec["nFrames" if "nFrames" in spec else "nSamples"] = n
                base = gen.rframes(rng, [True] * 97, w)
                spec[key][0]["frames"] = [base[i % 97] if m else None for i, m in enumerate(mask)]
                rec.count("workload:long-runs")
                run_case(rec, spec, {"dtype": "f4"}, rng, tuple(desc["oracles"]), "long-runs")


def shard_shapes(desc, rec):
    """C02 shape sweep aimed at each term of each size formula"""
    codec_mon.install(rec)
    rng = random.Random(desc["seed"] * 31 + 5)
    orc = tuple(desc["oracles"])
    # item counts 0..4 for every kind, both formats
    for kind in gen.KINDS:
        for fm in ([1, 2] if kind in ("data3D", "calib") else [None]):
            for nit in range(0, 5):
                for rep in range(desc.get("reps", 2)):
                    spec = gen.gen_spec(rng, kind, fmt=fm)
                    key = lib.ITEMS_KEY.get(kind)
                    if key:
                        while len(spec[key]) != nit:
                            spec = gen.gen_spec(rng, kind, fmt=fm)
                    for dt in ("f4", "f8"):
                        v = gen.gen_variant(rng, kind)
                        v["dtype"] = dt
                        run_case(rec, spec, v, rng, orc, "shapes")
    # links 0..6
    for nl in range(0, 7):
        spec = gen.gen_spec(rng, "data3D", fmt=1)
        spec["links"] = [[rng.randint(0, 5), rng.randint(0, 5)] for _ in range(nl)]
        for la in (True, False):
            run_case(rec, spec, {"dtype": "f4", "links_attr": la, "links": "array"}, rng, orc, "shapes")
    # data2D: every None pattern for <= 6 cells, both dtypes
    for nc, nf in [(0, 1), (1, 1), (2, 1), (1, 2), (2, 2), (3, 2), (2, 3), (1, 4), (4, 1), (0, 3)]:
        ncell = nc * nf
        for pat in itertools.product([False, True], repeat=ncell):
            spec = gen.gen_spec(rng, "data2D")
            spec["nCams"], spec["nFrames"] = nc, nf
            spec["map"] = list(range(nc))
            it = iter(pat)
            spec["cells"] = [[([[gen.rf32(rng), gen.rf32(rng)] for _ in range(rng.choice([1, 2, 3]))]
                               if next(it) else None) for _ in range(nc)] for _ in range(nf)]
            for dt in ("f4", "f8"):
                run_case(rec, spec, {"dtype": dt}, rng, orc, "shapes")
    rec.exhaustive["data2D None-patterns for <= 6 cells"] = True
    # segment counts 0..ceil(n/2) for each rle kind
    for kind in lib.RLE_KINDS:
        for n in (1, 2, 5, 8, 11):
            for nseg in range(0, (n + 1) // 2 + 1):
                mask = [False] * n
                pos = sorted(rng.sample(range(0, n, 2), nseg)) if nseg else []
                for p in pos:
                    mask[p] = True
                spec = gen.small_spec(kind, 2, n, mask, seed=desc["seed"])
                run_case(rec, spec, {"dtype": "f8"}, rng, orc, "shapes")


def shard_capture(desc, rec):
    """the BTS-recorded capture: every block decoded by the library and by the reference"""
    codec_mon.install(rec)
    from io import BytesIO
    data = env.CAPTURE.read_bytes()
    c = rc.parse_container(data)
    orc = tuple(desc["oracles"])
    rng = random.Random(desc["seed"])
    golden = _load_golden()
    for i, e in enumerate(c["entries"]):
        if e["type"] == 0:
            continue
        kind = rc.CODE_TYPES[e["type"]]
        payload = rc.payload_of(data, e)
        case = {"driver": "codec-capture", "slot": i, "kind": kind}
        rec.case({"capture": i}, True, sample={"capture_slot": i, "kind": kind, "size": e["size"]})
        rec.count(f"capture:{kind}")
        sref, spans, aux = rc.decode_block(kind, e["format"], payload)
        if not rc.check_spans_cover(spans, len(payload)):
            rec.inconc("reference spans do not cover the capture block")
        if golden is not None:
            if golden.get(kind) != jhash(sref):
                rec.inconc(f"golden digest mismatch for capture block {kind} (reference codec self-check)")
            else:
                rec.count("capture:golden-digest-ok")
        s = BytesIO(data)
        s.seek(e["offset"])
        try:
            obj = lib.BLOCK_CLASS[kind]._build(s, e["format"])
        except Exception as ex:
            for p in ("C06", "C02"):
                if p in orc:
                    rec.violation(p, f"{kind}:capture-not-decodable", f"{type(ex).__name__}: {ex}", case, exc=ex)
            continue
        used = s.tell() - e["offset"]
        rec.count("oracle:C02.capture-consumed==table-size")
        if used != e["size"] and "C02" in orc:
            rec.violation("C02", f"{kind}:capture-consumed!=table-size",
                          f"consumed {used}, jump table says {e['size']}", case)
        if int(obj.nBytes) != e["size"] and "C02" in orc:
            rec.violation("C02", f"{kind}:capture-declared!=table-size",
                          f"nBytes {obj.nBytes}, jump table says {e['size']}", case)
        x = lib.enc(obj)
        v = lib.view(obj, x)
        rec.count("oracle:C06.capture-decode==reference")
        d = rc.spec_diff(sref, v)
        if d and "C06" in orc:
            rec.violation("C06", f"{kind}:capture-decode-differs-from-layout", d, case)
        # re-encoding a BTS block reproduces every value byte (don't-care bytes become zeros)
        dc = set(rc.dontcare_positions(spans))
        if len(x) != len(payload):
            if "C06" in orc:
                rec.violation("C06", f"{kind}:capture-reencode-length", f"{len(x)} vs {len(payload)}", case)
        else:
            bad = [p for p in range(len(x)) if x[p] != payload[p] and p not in dc]
            rec.count("oracle:C06.capture-reencode-value-bytes")
            if bad and "C06" in orc:
                rec.violation("C06", f"{kind}:capture-reencode-differs",
                              f"value byte {bad[0]} ({_span_at(spans, bad[0])}) differs; {len(bad)} in total", case)
            nz = [p for p in dc if x[p] != 0]
            if nz and "C06" in orc:
                rec.violation("C06", f"{kind}:reserved-not-zeroed", f"byte {nz[0]} ({_span_at(spans, nz[0])})", case)
        # C12 on the capture: scramble its don't-care bytes
        if "C12" in orc:
            for j in range(desc.get("scr_k", 2)):
                xs = rc.scramble(payload, spans, rng, ["random", "ff", "text", "smallint"][j % 4])
                try:
                    os_, _ = lib.dec(kind, e["format"], xs)
                except Exception as ex:
                    rec.violation("C12", f"{kind}:dontcare-bytes-break-decoding",
                                  f"capture: {type(ex).__name__}: {ex}", case)
                    continue
                rec.count("oracle:C12.content-independent-of-dontcare")
                xs2 = lib.enc(os_)
                d = rc.spec_diff(v, lib.view(os_, xs2))
                if d:
                    rec.violation("C12", f"{kind}:dontcare-bytes-change-content", "capture: " + d, case)
                if xs2 != x:
                    rec.violation("C12", f"{kind}:dontcare-bytes-change-reencoding", "capture", case)
        # C05 on the capture: segment tables are maximal runs; gap frames NaN
        if kind in lib.RLE_KINDS and "C05" in orc:
            for ti, (tr, segs) in enumerate(zip(tracks_of(sref), aux["segs"])):
                rec.count("c05:capture-tracks")
                want = rc.runs(mask_of(tr["frames"]))
                if [tuple(s_) for s_ in segs] != want:
                    rec.note(f"capture {kind} track {ti}: BTS segment table is not maximal runs")
                got = tracks_of(v)[ti]["frames"]
                for fi, f in enumerate(tr["frames"]):
                    if f is None and got[fi] is not None:
                        rec.violation("C05", f"{kind}:gap-frame-not-NaN",
                                      f"capture track {ti} frame {fi}: {got[fi]}", case)
                        break


def _load_golden():
    import json
    p = env.VERIF / "golden" / "capture_digests.json"
    if not p.exists():
        return None
    return json.loads(p.read_text())


SHARDS = {"random": shard_random, "sweep": shard_sweep, "shapes": shard_shapes, "capture": shard_capture}


def run_shard(desc, rec):
    SHARDS[desc["kind"]](desc, rec)


def replay(case, rec, oracles):
    codec_mon.install(rec)
    rng = random.Random(0)
    if case.get("driver") == "codec-edit" and case.get("spec"):
        run_edit_case(rec, case["spec"], case["variant"], case["edit_seed"], case["n_edits"], oracles, 2)
    elif case.get("driver") == "codec" and "spec" in case:
        run_case(rec, case["spec"], case["variant"], rng, oracles, "replay", 3)
    elif case.get("driver") == "codec-capture":
        shard_capture({"seed": 0, "oracles": list(oracles)}, rec)
    elif case.get("regen"):
        g = case["regen"]
        grng = random.Random(g["seed"] * 1000003 + g["shard"] + 500009)
        for i in range(g["index"] + 1):
            kind = g["kinds"][i % len(g["kinds"])]
            spec = gen.gen_spec(grng, kind, big=g["big"])
            variant = gen.gen_variant(grng, kind)
        run_case(rec, spec, variant, rng, oracles, "replay", 3)
    else:
        rec.note("case not replayable")
