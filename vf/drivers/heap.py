"""C05 heap monitors: decoded gap frames must be NaN whatever the allocator hands out.

modes
  seeded       - before every decode, arrays of exactly the sizes the decoders will request are filled
                 with the sentinel 0x5a5a5a5a and freed, so numpy's small-block cache (and glibc's
                 tcache for larger ones) returns sentinel-filled memory to the next np.empty
  perturbNNN   - the same workload in a child whose glibc poisons every malloc/free (MALLOC_PERTURB_)
  memcheck     - a child python under valgrind memcheck decodes tracks >= 1 KiB and walks every decoded
                 element through a Python branch between two stderr markers; oracle: 0 reports between them
"""
from __future__ import annotations

import os
import random
import re
import subprocess
import sys
import warnings

import numpy as np

from .. import env, gen, refcodec as rc

env.bootstrap()
from .. import lib  # noqa: E402

warnings.filterwarnings("ignore", category=RuntimeWarning)
WIDTH = {"data3D": 3, "emg": 1, "force3D": 9, "platData": 6}
ALLOC = {"data3D": [12], "emg": [4], "force3D": [12, 12, 12], "platData": [24]}
SENT = np.uint32(0x5A5A5A5A)


def poison(kind, n):
    """fill the allocator's caches with sentinel-filled blocks of the sizes the decoder will ask for"""
    keep = []
    for item in ALLOC[kind]:
        for _ in range(3):
            a = np.empty(max(1, n * item // 4), dtype=np.uint32)
            a[:] = SENT
            keep.append(a)
    del keep


def item_arrays(kind, it):
    if kind == "data3D":
        return [np.asarray(it.data).reshape(-1, 3)]
    if kind == "emg":
        return [np.asarray(it.data).reshape(-1, 1)]
    if kind == "force3D":
        return [np.asarray(it.application_point), np.asarray(it.force), np.asarray(it.torque)]
    if kind == "platData":
        return [np.asarray(it.application_point).reshape(-1, 2), np.asarray(it.force).reshape(-1, 3),
                np.asarray(it.torque).reshape(-1, 1)]


def items_of(kind, blk):
    if kind == "platData":
        return list(blk.platforms)
    return list(blk)


def check_decode(rec, kind, spec, x, mode, case):
    """decode x (encoding of spec) through the library and test every frame against the mask"""
    poison(kind, len(lib.tracks_frames(spec)[0]) if lib.tracks_frames(spec) else 1)
    blk, _ = lib.dec(kind, spec["format"], x)
    its = items_of(kind, blk)
    for ti, frames in enumerate(lib.tracks_frames(spec)):
        mask = np.array([f is not None for f in frames], dtype=bool)
        arrs = item_arrays(kind, its[ti])
        cat = np.concatenate([a.reshape(len(mask), -1) for a in arrs], axis=1).astype(np.float32)
        gap = ~mask
        ngap = int(gap.sum())
        rec.count(f"heap:{mode}:gap-frames", ngap)
        rec.count(f"heap:{mode}:present-frames", int(mask.sum()))
        if ngap and not np.isnan(cat[gap]).all():
            bad = np.argwhere(~np.isnan(cat[gap]))[0]
            rec.violation("C05", f"{kind}:gap-frame-not-NaN",
                          f"[{mode}] track {ti}: a gap frame decodes to non-NaN value "
                          f"{cat[gap][bad[0]].tolist()} (uninitialised decode buffer)", case)
            return False
        if mask.any():
            want = np.array([f if isinstance(f, list) else [f] for f in frames if f is not None],
                            dtype=np.float32)
            if cat[mask].tobytes() != want.tobytes():
                rec.violation("C05", f"{kind}:present-frame-value-lost", f"[{mode}] track {ti}", case)
                return False
    return True


def shard_heap(desc, rec):
    mode = desc["mode"]
    rng = random.Random(desc["seed"] * 977 + len(mode))
    if mode.startswith("perturb"):
        want = mode[len("perturb"):]
        if os.environ.get("MALLOC_PERTURB_") != want:
            rec.inconc(f"MALLOC_PERTURB_ not set to {want} in the child")
            return
        probe = np.empty(4096, dtype=np.uint8)  # fresh malloc'd memory must carry the poison pattern
        rec.count(f"heap:{mode}:probe-byte-{int(probe[100])}")
    kinds = list(WIDTH)
    for i in range(desc["n"]):
        kind = kinds[i % 4]
        r = rng.random()
        n = rng.randint(1, 40) if r < 0.6 else (rng.randint(41, 255) if r < 0.85 else rng.randint(256, 3000))
        if kind == "force3D" and n > 600:
            n = 600
        nt = rng.choice([1, 1, 2, 3])
        frames = [gen.rframes(rng, gen.rmask(rng, n), WIDTH[kind]) for _ in range(nt)]
        spec = gen.small_spec(kind, nt, n, None, seed=i)
        key = lib.ITEMS_KEY[kind]
        for tr, f in zip(spec[key], frames):
            tr["frames"] = f
        x = rc.encode_block(spec)
        masks = [[f is not None for f in fr] for fr in frames]
        nontrivial = any(any(m) and not all(m) for m in masks)
        case = {"driver": "heap", "mode": mode, "kind": kind,
                "masks": ["".join("1" if b else "0" for b in m) for m in masks] if n <= 200 else None,
                "n": n, "seed": desc["seed"], "index": i}
        rec.case({"k": kind, "m": masks if n <= 64 else rc.runs(masks[0])[:50], "n": n, "mode": mode},
                 nontrivial, sample=case if i % 211 == 0 else None)
        rec.count("heap:seeded-decodes" if mode == "seeded" else f"heap:{mode}:decodes")
        check_decode(rec, kind, spec, x, mode, case)


MEMCHECK_SCRIPT = r'''
import sys, os, random
sys.path.insert(0, os.environ["VF_REPO_SRC"]); sys.path.insert(0, os.environ["VF_VERIF"])
import numpy as np
from vf import gen, refcodec as rc, lib
from vf.drivers import heap
rng = random.Random(int(os.environ["VF_SEED"]))
n_cases = int(os.environ["VF_N"])
cases = []
for i in range(n_cases):
    kind = list(heap.WIDTH)[i % 4]
    n = rng.randint(300, 700)
    spec = gen.small_spec(kind, 1, n, None, seed=i)
    spec[lib.ITEMS_KEY[kind]][0]["frames"] = gen.rframes(rng, gen.rmask(rng, n, rng.choice(["prefix_gap","suffix_gap","blocks","random","both_ends"])), heap.WIDTH[kind])
    cases.append((kind, spec, rc.encode_block(spec)))
sys.stderr.write("\nVF-MARK-BEGIN\n"); sys.stderr.flush()
pos = 0; tot = 0
for kind, spec, x in cases:
    blk, _ = lib.dec(kind, spec["format"], x)
    for it in heap.items_of(kind, blk):
        for a in heap.item_arrays(kind, it):
            for v in a.ravel().tolist():
                tot += 1
                if v > 0:          # a branch on every decoded element: memcheck reports uninitialised ones here
                    pos += 1
sys.stderr.write("\nVF-MARK-END elements=%d positive=%d\n" % (tot, pos)); sys.stderr.flush()
'''


def shard_memcheck(desc, rec):
    vg = "/usr/bin/valgrind"
    if not os.path.exists(vg):
        rec.inconc("valgrind not installed")
        return
    envv = dict(os.environ)
    envv.update({"PYTHONMALLOC": "malloc", "VF_REPO_SRC": str(env.REPO / "src"), "VF_VERIF": str(env.VERIF),
                 "VF_SEED": str(desc["seed"]), "VF_N": str(desc["n"]), "PYTHONDONTWRITEBYTECODE": "1"})
    cmd = [vg, "-q", "--error-limit=no", "--num-callers=12", sys.executable, "-c", MEMCHECK_SCRIPT]
    try:
        p = subprocess.run(cmd, env=envv, capture_output=True, timeout=1500)
    except subprocess.TimeoutExpired:
        rec.inconc("memcheck run hit its watchdog")
        return
    err = p.stderr.decode(errors="replace")
    m = re.search(r"VF-MARK-BEGIN(.*)VF-MARK-END elements=(\d+) positive=(\d+)", err, re.S)
    if not m:
        rec.inconc("memcheck markers not found: " + err[-800:])
        return
    before = err[:err.index("VF-MARK-BEGIN")]
    between = m.group(1)
    rep_before = len(re.findall(r"==\d+== (Conditional jump|Use of uninitialised|Invalid (read|write))", before))
    rep = len(re.findall(r"==\d+== (Conditional jump|Use of uninitialised|Invalid (read|write))", between))
    rec.count("heap:memcheck:elements-branched", int(m.group(2)))
    rec.count("heap:memcheck:reports-before-marker", rep_before)
    rec.count("heap:memcheck:reports-between-markers", rep)
    case = {"driver": "heap", "mode": "memcheck", "seed": desc["seed"], "n": desc["n"]}
    rec.case(case, True, sample=case)
    rec.case({"memcheck": "second", "elements": int(m.group(2))}, True)
    if rep:
        first = re.search(r"(==\d+== (Conditional jump|Use of uninitialised).*?)(?:==\d+== \n|\Z)", between, re.S)
        rec.violation("C05", "decode-exposes-uninitialised-memory",
                      f"valgrind memcheck: {rep} uninitialised-value reports while branching on decoded "
                      f"elements; first: {(first.group(1) if first else '')[:900]}", case)


def run_shard(desc, rec):
    if desc["kind"] == "memcheck":
        return shard_memcheck(desc, rec)
    return shard_heap(desc, rec)


def replay(case, rec):
    if case.get("mode") == "memcheck":
        return shard_memcheck({"seed": case["seed"], "n": case["n"]}, rec)
    shard_heap({"mode": "seeded", "seed": case.get("seed", 0), "n": case.get("index", 0) + 1}, rec)
