"""C06 - bytes follow the fixed TDF layout, in both directions (reference codec + BTS capture)."""
from ..drivers import codec
from ._codec_common import plan_codec

ID = "C06"
LEVEL = "exploration"
TECHNIQUE = "runtime monitoring: differential oracle against an independent struct-based reference codec + golden digests of the BTS capture"
RULE = ("encode direction: library bytes vs refcodec.encode(spec) for every generated spec; decode "
        "direction: refcodec-encoded bytes with randomised don't-care bytes decoded by the library vs "
        "the spec; header/entry writers vs refcodec over random field values; Tdf.new vs the canonical "
        "empty container; the 8 capture blocks: library decode == reference decode, every byte "
        "labelled, golden digests; non-trivial = block with >= 1 item or entry/header case")
ASSUMPTIONS = ["refcodec is my reading of the layout, anchored on the BTS capture (decodes all 8 blocks exactly "
               "to their jump-table sizes; EMG bias 49 derived from it); formats the capture does not contain "
               "(Data3D without links, BTS calibration, events) rest on the pinned implementation's layout"]
REQUIRED = {t: ["oracle:C06.encode==reference", "oracle:C06.decode==reference",
                "oracle:C06.capture-decode==reference", "capture:golden-digest-ok",
                "oracle:C06.entry==reference", "oracle:C06.new==canonical", "oracle:C06.full-width-field-decoded-whole",
                "oracle:C06.written-entry==reference", "oracle:C06.decode-unsorted-segment-table"] for t in ("quick", "thorough")}


def plan(tier, seed):
    return plan_codec(tier, seed, ["C06"], scr_k=1 if tier == "quick" else 2,
                      extra=[{"kind": "container-layout", "n": 400 if tier == "quick" else 20000},
                             {"kind": "container-layout", "n": 300 if tier == "quick" else 8000, "env": {"TZ": "Europe/Rome"}},
                             {"kind": "container-layout", "n": 150 if tier == "quick" else 8000,
                              "env": {"TZ": "America/Sao_Paulo"}},
                             {"kind": "full-width", "n": 200 if tier == "quick" else 5000}])


def run_shard(desc, rec):
    if desc["kind"] == "container-layout":
        from ..drivers import layout
        return layout.shard_container_layout(desc, rec)
    if desc["kind"] == "full-width":
        from ..drivers import layout
        return layout.shard_full_width(desc, rec)
    codec.run_shard(desc, rec)


def replay(case, rec):
    if case.get("driver") == "layout":
        from ..drivers import layout
        return layout.replay(case, rec)
    codec.replay(case, rec, ("C06",))
