"""C19 - constructors refuse arguments whose shape would mis-size the encoding."""
from ..drivers import shapes as drv

ID = "C19"
LEVEL = "exploration"
TECHNIQUE = ("runtime monitoring: exhaustive shape x dtype grid driven through the real constructors with the outcome known by construction, plus nBytes == len(encoding) asserted for every accepted object")
RULE = ("for each of 20 validated constructor arguments (volume / rotation / translation of Data3D, ForceTorque3D, CalibrationDataBlock; the 7 Seelab camera parameters; (2,2) viewport coercion in Seelab and optical channels; CameraViewPort origin and size, singly and as an 11 x 11 joint grid incl. size omitted; two-element lists / tuples of python and numpy scalars, namedtuples and list / tuple / ndarray subclasses) all 156 array shapes of rank 0-3 with extents 0..4 in 8 dtypes, plus None / str / int / float / bytes / list / tuple / dict / object, exactly-shaped lists / tuples and object / string arrays (acceptance not judged, size must agree); ForceTorqueTrack: all 12^3 shape triples; Event: 23 value kinds x both event kinds + lengths 0..5; history independence: the same array object offered again after being reshaped in place (valid -> invalid -> valid, invalid -> valid), and a compact refusal matrix (exact shape, same-size other shapes, None per argument) repeated after successful encodes / decodes, failed decodes (truncated, unknown format) of every block kind and refused constructor calls; non-trivial = every case")
ASSUMPTIONS = ["except in the joint viewport grid only the argument under test varies; all other arguments are valid and mutually consistent", "refuse = any exception at construction", "exactly-shaped lists/tuples for non-viewport arguments and non-numeric dtypes are not judged on acceptance"]
REQUIRED = {t: "oracle:C19.accept oracle:C19.refuse oracle:C19.accepted-object-sizes-right c19:Data3D c19:ForceTorque3D c19:CalibrationDataBlock c19:SeelabCameraData c19:CameraViewPort c19:OpticalChannelData c19:ForceTorqueTrack(application_point,force,torque) c19:Event c19:same-object-offered-again c19:compact-matrix-after-event c19:history:failed-decodes c19:history:decode-ok".split() for t in ("quick", "thorough")}


def plan(tier, seed):
    if tier == "quick":
        return [{"kind": "grid"}, {"kind": "coupled"}, {"kind": "history"}]
    return [{"kind": "grid"}, {"kind": "coupled", "reps": 3}, {"kind": "history"}] + [{"kind": "combo", "shard": s, "n": 40000} for s in range(8)]


def run_shard(desc, rec):
    drv.run_shard(desc, rec)


def replay(case, rec):
    drv.replay(case, rec)
