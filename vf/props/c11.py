"""C11 - at most one block per type; presence, count, lookup, getters agree with content (shared container driver; this check judges the C11 oracle)."""
from ..drivers import container
from ._container_common import plan_container

ID = "C11"
LEVEL = "exploration"
TECHNIQUE = ("runtime monitoring: sequential reference model + independent parse of the file after every single "
             "operation of generated add/remove/replace/setter histories on real files")
RULE = ("removal by an instance of the type in either of its formats (a removal that does not find a present type is a violation); bounded-exhaustive op sequences (depth<=3 quick / 4 thorough, 17-op alphabet = 3 types x 2 payload sizes x "
        "add/replace/set + remove) on reference-encoded tables of N in {1,2,3} (empty or pre-filled with an opaque "
        "block) + removal-position matrix for N<=6 + random 30-80-op histories over all nine types on Tdf.new files "
        "and foreign compact files of N in {1,2,3,4,6,14} (opaque blocks, scrambled don't-care bytes; thorough: a copy "
        "of the BTS capture), split over several write contexts; a case is a history; non-trivial = a random history "
        "of >= 3 operations or an enumerated sequence of depth >= 2 (distinct abstract states (N, live types in order, #free) and "
        "transitions actually visited are reported separately under monitor_observations)")
ASSUMPTIONS = ["initial files are compact (blocks back to back in table order, free slots last at end of data)",
               "adding an UnusedBlock is not an operation of the property's domain",
               "expected payload of a library-written block is its encoding captured at call time"]
REQUIRED = {t: "oracle:C11.unique-types oracle:C11.has oracle:C11.get_block(type) oracle:C11.get_block(index) oracle:C11.blocks oracle:C11.getter op:add:raise op:set:ok c11:files-with-holes oracle:C11.accessors-after-refusal-in-readonly-context".split() + ["histories", "observations"] for t in ("quick", "thorough")}


def plan(tier, seed):
    return plan_container(tier, seed, ["C11"]) + [{"kind": "holes-readonly", "n": 120 if tier == "quick" else 4000,
                                                   "oracles": ["C11"]}]


def run_shard(desc, rec):
    container.run_shard(desc, rec)


def replay(case, rec):
    container.replay(case, rec, ("C11",))
