"""C13 - fixed-width text fields: exact width, lossless for valid text, else refused with ValueError."""
from ..drivers import strings

ID = "C13"
LEVEL = "exploration"
TECHNIQUE = ("runtime monitoring: icontract postconditions on the real BTSString.write/read plus an enumerating driver "
             "(every cp1252 character x position x width, lengths 0..w+3, non-cp1252 code points, random byte fields)")
RULE = ("widths {1,2,3,4,32,256}: every one of the 250 cp1252-encodable NUL-free characters at the first, middle and last "
        "position of a maximal string, alone, and repeated to width (over-long by one); lengths 0..w+3; 12 non-cp1252 "
        "strings; every BMP code point cp1252 cannot encode, alone and after a letter, letter + combining mark, decomposed forms of every encodable character; random strings; default reads repeated after (and, for non-ASCII strings, preceded by) reads of the same bytes under latin-1 / utf-8 / cp437; read side: random / terminated / unterminated / all-zero byte fields with tail "
        "re-randomisation; labels of width-2..width+5 through six item classes given to the constructor or assigned to the item afterwards, comments through TdfEntry and through add_block / replace_block(comment="") / replace_block() / setters on real files read back after reopening; "
        "non-trivial = every case (distinct (width, string) or (width, bytes))")
ASSUMPTIONS = ["'encodable' is defined by Python's cp1252 codec", "strings with an embedded NUL are outside the domain",
               "bytes cp1252 cannot decode before the terminator are counted, not judged"]
REQUIRED = {t: ["oracle:C13.default-read-after-read-in-other-code-page", "oracle:C13.first-read-in-other-code-page", "oracle:C13.write-valid", "oracle:C13.write-invalid-refused", "oracle:C13.roundtrip", "oracle:C13.read",
                "oracle:C13.read-tail-independent", "contract:BTSString.write.post", "contract:BTSString.read.post",
                "c13:through-block", "c13:through-entry", "c13:through-block:assigned-later",
                "oracle:C13.comment-roundtrip-through-file", "c13:write:bmp-unencodable"] for t in ("quick", "thorough")}


def plan(tier, seed):
    return [{"kind": "strings", "n": 20000 if tier == "quick" else 400000}, {"kind": "repo-tests"}]


def run_shard(desc, rec):
    if desc["kind"] == "repo-tests":
        from ..drivers import repotests
        return repotests.run_shard(desc, rec)
    strings.run_shard(desc, rec)


def replay(case, rec):
    strings.replay(case, rec)
