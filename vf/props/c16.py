"""C16 - no wrong-length track enters a block; list assignment is all-or-nothing."""
from ..drivers import objects as drv

ID = "C16"
LEVEL = "exploration"
TECHNIQUE = ("runtime monitoring: identity snapshots of tracks / iteration / len around every add and assignment; invariant (right kind, right frame count) evaluated after every call")
RULE = ("random sequences (4-18 ops) on Data3D / ForceTorque3D / EMG blocks of 1..50 frames with 0..5 prior tracks: add valid, add wrong-length (shorter, longer, zero, double), add non-track (None, str, float, ndarray, dict, object), add a track of another block kind, assign lists / tuples / generators of 0..5 tracks valid or with one invalid element at every position, iterables derived from the block itself (its list, reversed, filtered, sliced, the block object, a lazy view), one caller list assigned to two blocks of different frame counts followed by valid additions to either; epilogue per case: another block of the same class (as block, its list, iter, tuple) with the same / another frame count assigned, lists of labels of current tracks assigned and added (refused, unchanged); non-trivial = every sequence")
ASSUMPTIONS = ["refused = any exception"]
REQUIRED = {t: "oracle:C16.invariant oracle:C16.bad-add-refused oracle:C16.assignment-all-or-nothing oracle:C16.assignment-from-own-list oracle:C16.sibling-invariant oracle:C16.assignment-from-another-block oracle:C16.assignment-of-labels-refused c16:data3D c16:force3D c16:emg".split() for t in ("quick", "thorough")}


def plan(tier, seed):
    if tier == "quick":
        return [{"kind": "c16", "shard": s, "n": 2500} for s in range(4)] + [{"kind": "repo-tests"}]
    return [{"kind": "c16", "shard": s, "n": 20000} for s in range(14)] + [{"kind": "repo-tests"}]


def run_shard(desc, rec):
    if desc["kind"] == "repo-tests":
        from ..drivers import repotests
        return repotests.run_shard(desc, rec)
    from ..monitors import contracts
    contracts.install(rec)   # auxiliary class invariants (icontract), record-only
    drv.run_shard(desc, rec)


def replay(case, rec):
    drv.replay(case, rec)
