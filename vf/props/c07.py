"""C07 - a rejected mutation leaves the file exactly as it was (fault enumeration)."""
from ..drivers import container, faults
from ._container_common import plan_container

ID = "C07"
LEVEL = "fault_enumeration"
TECHNIQUE = ("runtime monitoring with fault injection: cause x state x position enumeration of invalid requests plus "
             "source-free sys.monitoring failpoints inside the block encoders; sha256 of the file around every raising call")
RULE = ("causes {duplicate type, table full, label too long / non-cp1252 at first/middle/last item (each of the three "
        "strings for optical channels), comment too long (256/257/300) / non-cp1252, unsupported format of 5 kinds, wrong "
        "object (None/str/track/fake/duck-typed wrapper of a real block), a block assigned through the convenience property of another type, remove/replace of an absent type, unused slot between live blocks} x via "
        "{add, replace, setter} x every state reached by depth<=2 prefixes on N in {1,2,3} + random deep states on N<=14, "
        "each followed by a 3-op valid continuation checked against the reference model; plus an injected encoder "
        "exception at every k-th statement of the block's _write / nBytes (deterministic per invocation); a case = "
        "(history, fault); non-trivial = the file held >= 1 live block or the fault is an encode-time one; "
        "distinct (cause, abstract state) pairs are counted")
ASSUMPTIONS = ["an injected fault models a deterministic property of the request (it recurs on every encode of that block)",
               "for files with an unused slot between live blocks only add, setter-add and replace of a block before the hole are judged"]
REQUIRED = {t: ["op:block-assigned-through-the-property-of-another-type", "oracle:C07.rejected-leaves-file", "oracle:C07.refusal-propagates-out-of-the-context", "c07:cause:duplicate-type", "c07:cause:table-full",
                "c07:cause:label-too-long", "c07:cause:label-non-cp1252", "c07:cause:comment-too-long",
                "c07:cause:comment-non-cp1252", "c07:cause:unsupported-format", "c07:cause:wrong-object",
                "c07:cause:remove-absent", "c07:cause:replace-absent", "c07:cause:unused-slot-between-live-blocks",
                "c07:cause:injected-encoder-fault", "failpoints:fired", "c07:continuations-completed"]
            for t in ("quick", "thorough")}


def plan(tier, seed):
    orc = ["C07"]
    sh = []
    if tier == "quick":
        for i in range(10):
            sh.append({"kind": "fault-matrix", "part": i, "parts": 10, "stride": 5, "oracles": orc, "depth": 2})
        sh.append({"kind": "holes", "n": 240, "oracles": orc})
        sh.append({"kind": "failpoints", "n": 18, "max_k": 12, "oracles": orc})
        for s in range(3):
            sh.append({"kind": "random", "shard": s, "n": 40, "oracles": orc, "faults": 0.2})
        sh.append({"kind": "exhaustive", "n": 2, "depth": 2, "oracles": orc})
    else:
        for i in range(16):
            sh.append({"kind": "fault-matrix", "part": i, "parts": 16, "stride": 1, "oracles": orc, "depth": 2})
        sh.append({"kind": "holes", "n": 1500, "oracles": orc})
        for i in range(4):
            sh.append({"kind": "failpoints", "n": 60, "max_k": 400, "oracles": orc, "shard": i})
        for s in range(8):
            sh.append({"kind": "random", "shard": s, "budget_s": 120, "oracles": orc, "faults": 0.2})
        for n in (1, 2, 3):
            sh.append({"kind": "exhaustive", "n": n, "depth": 3, "oracles": orc})
    return sh


def run_shard(desc, rec):
    if desc["kind"] in faults.SHARDS:
        return faults.run_shard(desc, rec)
    container.run_shard(desc, rec)


def replay(case, rec):
    if case.get("driver") == "faults":
        return faults.replay(case, rec, ("C07",))
    container.replay(case, rec, ("C07",))
