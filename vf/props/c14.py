"""C14 - equality tells equal content from different content (blocks and whole files)."""
from ..drivers import equality

ID = "C14"
LEVEL = "exploration"
TECHNIQUE = ("runtime monitoring: metamorphic oracle over generated pairs whose relation is known by construction "
             "(identical / decode of own encoding / exactly one field, element or item changed)")
RULE = ("for each generated block a (all nine kinds, with and without gaps, both calibration and Data3D formats): a==a, "
        "a==dec(enc(a)) (both directions), dec==dec, and a != m(a) for every single mutation m in {item appended / removed "
        "first / removed last, label changed, label case changed, channel changed, each header scalar, one sample moved far "
        "beyond float tolerance, gap<->present flip, camera parameter, viewport, event value/kind, 2D cell filled / emptied / "
        "point appended}, also reversed and after a round trip of both sides; file pairs built with Tdf.new + add_block: "
        "same blocks, one mutated, one removed, one added; non-trivial = base block with >= 1 item")
ASSUMPTIONS = ["truthiness of the comparison result is used (np.bool_ is fine); a raising comparison on a same-type pair is a violation",
               "cross-type comparisons are not exercised"]
REQUIRED = {t: ["oracle:C14.self", "oracle:C14.roundtrip", "oracle:C14.mutated", "oracle:C14.files-equal",
                "oracle:C14.files-differ", "oracle:C14.edited-in-place", "oracle:C14.shared-buffer"] + [f"c14:{k}:mutated" for k in equality.gen.KINDS]
            for t in ("quick", "thorough")}


def plan(tier, seed):
    if tier == "quick":
        return [{"kind": "eq-blocks", "shard": s, "n": 900} for s in range(5)] + [{"kind": "eq-files", "n": 150}]
    return [{"kind": "eq-blocks", "shard": s, "n": 4000} for s in range(14)] + [{"kind": "eq-files", "n": 1500}]


def run_shard(desc, rec):
    equality.run_shard(desc, rec)


def replay(case, rec):
    equality.replay(case, rec)
