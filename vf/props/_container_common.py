"""plans shared by the container-layer properties (one driver, several oracles)"""
from ..drivers import container

ALL = ["C03", "C04", "C09", "C10", "C11", "C07"]


def plan_container(tier, seed, oracles, faults=0.08):
    orc = list(oracles)
    sh = []
    if tier == "quick":
        for n in (1, 2, 3):
            for f in range(4):
                sh.append({"kind": "exhaustive", "n": n, "depth": 3, "first": f, "nshards": 4, "oracles": orc})
        sh.append({"kind": "exhaustive", "n": 3, "depth": 2, "prefill": 1, "oracles": orc})
        sh.append({"kind": "removal-matrix", "oracles": orc, "reps": 1})
        for s in range(3):
            sh.append({"kind": "random", "shard": s, "n": 50, "oracles": orc, "faults": faults})
        sh.append({"kind": "random", "shard": 7, "n": 30, "oracles": orc, "faults": faults, "env": {"TZ": "Europe/Rome"}})
        sh.append({"kind": "sized", "oracles": orc, "variants": 2})
    else:
        for n in (1, 2, 3):
            for f in range(16):
                sh.append({"kind": "exhaustive", "n": n, "depth": 4, "first": f, "nshards": 16, "oracles": orc})
        sh.append({"kind": "exhaustive", "n": 3, "depth": 3, "prefill": 1, "oracles": orc})
        sh.append({"kind": "exhaustive", "n": 2, "depth": 3, "prefill": 1, "oracles": orc})
        sh.append({"kind": "removal-matrix", "oracles": orc, "reps": 6})
        for s in range(12):
            sh.append({"kind": "random", "shard": s, "budget_s": 150, "oracles": orc, "faults": faults,
                       "capture_every": 40 if s == 0 else None})
        for i, tz in enumerate(["Europe/Rome", "America/Sao_Paulo", "Australia/Lord_Howe"]):
            sh.append({"kind": "random", "shard": 300 + i, "budget_s": 60, "oracles": orc, "faults": faults, "env": {"TZ": tz}})
        sh.append({"kind": "sized", "oracles": orc, "variants": 4, "more": True})
    return sh


def run_shard(desc, rec):
    container.run_shard(desc, rec)
