"""plans shared by the container-layer properties (one driver, several oracles)"""
from ..drivers import container

ALL = ["C03", "C04", "C09", "C10", "C11", "C07"]


def plan_container(tier, seed, oracles, faults=0.0):
    orc = list(oracles)
    sh = []
    if tier == "quick":
        for n in (1, 2, 3):
            for f in range(4):
                sh.append({"kind": "exhaustive", "n": n, "depth": 3, "first": f, "nshards": 4, "oracles": orc})
        sh.append({"kind": "exhaustive", "n": 3, "depth": 2, "prefill": 1, "oracles": orc})
        sh.append({"kind": "removal-matrix", "oracles": orc, "reps": 1})
        for s in range(3):
            sh.append({"kind": "random", "shard": s, "n": 50, "oracles": orc, "faults": faults})
    else:
        for n in (1, 2, 3):
            for f in range(16):
                sh.append({"kind": "exhaustive", "n": n, "depth": 4, "first": f, "nshards": 16, "oracles": orc})
        sh.append({"kind": "exhaustive", "n": 3, "depth": 3, "prefill": 1, "oracles": orc})
        sh.append({"kind": "exhaustive", "n": 2, "depth": 3, "prefill": 1, "oracles": orc})
        sh.append({"kind": "removal-matrix", "oracles": orc, "reps": 6})
        for s in range(12):
            sh.append({"kind": "random", "shard": s, "budget_s": 150, "oracles": orc, "faults": faults,
                       "capture_every": 40 if s == 0 else None})
    return sh


def run_shard(desc, rec):
    container.run_shard(desc, rec)
