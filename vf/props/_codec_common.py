"""plan helpers shared by C01/C02/C05/C06/C12 (one driver, several oracles)"""
from ..drivers import codec


def plan_codec(tier, seed, oracles, quick_n=1400, thorough_budget=45, scr_k=1, sweep_n=(5, 8),
               shapes=False, extra=None):
    orc = list(oracles)
    shards = []
    if tier == "quick":
        for s in range(4):
            shards.append({"kind": "random", "shard": s, "n": quick_n * 9 // 4, "oracles": orc, "scr_k": scr_k})
        shards.append({"kind": "sweep", "mask_n": sweep_n[0], "oracles": orc})
        shards.append({"kind": "capture", "oracles": orc, "scr_k": 2})
        if shapes:
            shards.append({"kind": "shapes", "oracles": orc, "reps": 1})
    else:
        for s in range(14):
            shards.append({"kind": "random", "shard": s, "budget_s": thorough_budget, "oracles": orc,
                           "scr_k": scr_k, "big": s % 2 == 0})
        for k in ("data3D", "emg", "force3D", "platData"):
            shards.append({"kind": "sweep", "mask_n": sweep_n[1], "kinds": [k], "oracles": orc})
        shards.append({"kind": "capture", "oracles": orc, "scr_k": 6})
        if shapes:
            shards.append({"kind": "shapes", "oracles": orc, "reps": 4})
    if extra:
        shards.extend(extra)
    return shards


def run_shard(desc, rec):
    codec.run_shard(desc, rec)
