"""C15 - channel numbers stay attached to their items through edits."""
from ..drivers import objects as drv

ID = "C15"
LEVEL = "exploration"
TECHNIQUE = ("runtime monitoring: shadow list of (channel, item) pairs stepped beside the real block; channel map parsed from the encoded bytes by the reference decoder after every operation")
RULE = ("platform calibration epilogue per case: bulk adds mixing explicit channels and None in one list, then bulk assignment of iterables derived from the block itself (the block, iter(block), its platforms list, reversed, a filtering generator, a view that asks the block when iterated); random sequences (5-25 ops) of add (automatic / explicit free / explicit taken channel), remove (by label for EMG; by index, item, bulk, bad index, foreign item for platform calibration), bulk add with / without channels, bulk assignment (valid and with a duplicate channel), encode->decode->continue, on EMG, platform-calibration and platform-data blocks starting empty, pre-filled, constructor-filled (calibration) or decoded from bytes; non-trivial = every sequence")
ASSUMPTIONS = ["a refused automatic add is recorded, not judged", "after a refused bulk assignment only the invariants (equal length, unique channels, surviving items keep their channel) are demanded"]
REQUIRED = {t: "oracle:C15.pairs==shadow oracle:C15.auto-channel-unused oracle:C15.explicit-channel oracle:C15.remove oracle:C15.bulk-assignment oracle:C15.roundtrip-pairs oracle:C15.bulk-add-mixed-explicit-and-automatic oracle:C15.bulk-assignment-from-own-pairs c15:emg:decoded c15:platCal:constructor-filled c15:platData:decoded".split() for t in ("quick", "thorough")}


def plan(tier, seed):
    if tier == "quick":
        return [{"kind": "c15", "shard": s, "n": 1200} for s in range(4)] + [{"kind": "repo-tests"}]
    return [{"kind": "c15", "shard": s, "n": 14000} for s in range(14)] + [{"kind": "repo-tests"}]


def run_shard(desc, rec):
    if desc["kind"] == "repo-tests":
        from ..drivers import repotests
        return repotests.run_shard(desc, rec)
    from ..monitors import contracts
    contracts.install(rec)   # auxiliary class invariants (icontract), record-only
    drv.run_shard(desc, rec)


def replay(case, rec):
    drv.replay(case, rec)
