"""C18 - index, label, membership, iteration and length are coherent and pure."""
from ..drivers import objects as drv

ID = "C18"
LEVEL = "exploration"
TECHNIQUE = ("runtime monitoring: relational oracle over len / iter / [] / in on generated blocks, with purity checked by identity and encoding snapshots")
RULE = ("unsupported keys include items of the other block kinds and whole blocks (the block itself too); events hold an instant, none, or NaN; blocks of 0..6 items of the four list-like kinds (3D, force/torque, EMG, events), labels drawn from a pool with duplicates, empty labels, case variants and surrounding blanks, 30% decoded from bytes; keys: every int in [-n-2, n+2], every present label and 11 near-miss probes, contained items, None / float / bytes / tuple / list / set keys, an item object as key, keys no stored label can equal (non-cp1252, over-long, label+NUL+tail); EMG signals with explicit channels in arbitrary order; several iterations of one block alive at once (resumed iterator, nested loops, zip(b, b)); non-trivial = every block")
ASSUMPTIONS = ["bool and numpy integer keys are not exercised"]
REQUIRED = {t: "oracle:C18.len==iter oracle:C18.index oracle:C18.label oracle:C18.item-membership oracle:C18.bad-key oracle:C18.pure oracle:C18.interleaved-iterations c18:data3D c18:force3D c18:emg c18:events".split() for t in ("quick", "thorough")}


def plan(tier, seed):
    if tier == "quick":
        return [{"kind": "c18", "shard": s, "n": 2500} for s in range(4)]
    return [{"kind": "c18", "shard": s, "n": 7000} for s in range(14)]


def run_shard(desc, rec):
    drv.run_shard(desc, rec)


def replay(case, rec):
    drv.replay(case, rec)
