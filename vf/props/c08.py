"""C08 - bytes change only inside an explicitly write-enabled context; readers never write."""
from ..drivers import access

ID = "C08"
LEVEL = "exploration"
TECHNIQUE = ("runtime monitoring: permission state machine as oracle over access-mode interleavings, observed by sha256 "
             "around every call, a sys.addaudithook log of open() modes, /proc/self/fd scans, and (thorough) an strace syscall log")
RULE = ("exhaustive matrix of 8 mutators + 20 readers x 6 access modes x 6 file states (new, one block, several, full "
        "table, unused slots in front of used ones, slack between blocks) + random interleavings (10-30 steps) of allow_write / enter / exit / exit-by-exception / mutators / "
        "readers on one Tdf object, entering and leaving a context (also by exception) is itself checked not to change a byte; with a three-valued permission model (must raise & leave bytes / may change / either); "
        "every third exit of an interleaving has its closing flush fail (close() injected to close and raise OSError) before the model continues; "
        "non-trivial = every matrix cell and every interleaving of >= 10 steps")
ASSUMPTIONS = ["files are well-formed TDFs", "contexts are not nested on one object",
               "after a reader opened an implicit context while allow_write() was outstanding, a later context may or may "
               "not be writable (the statement does not decide it); only 'raise => bytes unchanged' is demanded there"]
REQUIRED = {"quick": ["c08:context-left-while-close-fails", "oracle:C08.mutator-gated", "oracle:C08.entering-a-context-is-not-a-mutation",
                      "oracle:C08.leaving-a-context-is-not-a-mutation", "oracle:C08.reader-pure", "oracle:C08.no-descriptor-left",
                      "c08:mutator:allowed", "c08:mutator:forbidden", "c08:bytes-changed-inside-write-context",
                      "audit:open:w:enter", "audit:open:r:reader-implicit-context"] +
            [f"matrix:{m}:mut" for m in access.MODES],
            "thorough": ["oracle:C08.mutator-gated", "oracle:C08.reader-pure", "oracle:C08.no-descriptor-left",
                         "c08:bytes-changed-inside-write-context", "audit:open:w:enter"]}


def plan(tier, seed):
    if tier == "quick":
        return [{"kind": "matrix"}] + [{"kind": "interleave", "shard": s, "n": 500} for s in range(4)]
    return [{"kind": "matrix"}] + [{"kind": "interleave", "shard": s, "n": 2500} for s in range(12)] + \
           [{"kind": "strace", "n": 150}]


def run_shard(desc, rec):
    access.run_shard(desc, rec)


def replay(case, rec):
    access.replay(case, rec)
