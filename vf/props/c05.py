"""C05 - gaps are stored as exact maximal runs; gap frames always decode to NaN (any heap state)."""
from ..drivers import codec
from ._codec_common import plan_codec

ID = "C05"
LEVEL = "exploration"
TECHNIQUE = ("runtime monitoring: segment tables parsed from the written bytes by an independent parser vs "
             "runs(mask); decode under poisoned heap (numpy block-cache seeding, MALLOC_PERTURB_, valgrind memcheck)")
RULE = ("all 2^n presence masks for n <= 10 (quick) / 13 (thorough) for each of the four run-length coded kinds "
        "(1-2 tracks with independent masks) + random masks up to 5000 frames; encode side: segment table in the "
        "bytes == maximal runs of the mask; decode side: gap frames NaN in every component, present frames "
        "bit-identical, two decodes identical - repeated with sentinel-seeded numpy block cache, under "
        "MALLOC_PERTURB_=165 and 90, and (thorough) under valgrind memcheck between markers; "
        "non-trivial = mask with at least one gap and one present frame")
ASSUMPTIONS = ["sentinel 0x5a5a5a5a / 0xa5a5a5a5 patterns are non-NaN as float32",
               "memcheck only sees allocations that reach malloc (arrays >= 1 KiB) and values the harness branches on"]
REQUIRED = {
    "quick": ["oracle:C05.segments==maximal-runs", "c05:gap-frames-checked", "heap:seeded-decodes",
              "heap:perturb165:gap-frames", "heap:perturb90:gap-frames", "c05:data3D:tracks", "c05:emg:tracks",
              "c05:force3D:tracks", "c05:platData:tracks"],
    "thorough": ["oracle:C05.segments==maximal-runs", "c05:gap-frames-checked", "heap:seeded-decodes",
                 "heap:perturb165:gap-frames", "heap:perturb90:gap-frames", "heap:memcheck:elements-branched"],
}


def plan(tier, seed):
    orc = ["C05"]
    sh = []
    kinds = ["data3D", "emg", "force3D", "platData"]
    if tier == "quick":
        for k in kinds:
            sh.append({"kind": "sweep", "mask_n": 10 if k != "force3D" else 9, "kinds": [k], "oracles": orc, "items": [1]})
        sh.append({"kind": "sweep", "mask_n": 6, "kinds": kinds, "oracles": orc, "items": [2, 3]})
        sh.append({"kind": "random", "shard": 0, "n": 1200, "kinds": kinds, "oracles": orc})
        sh.append({"kind": "capture", "oracles": orc})
        sh.append({"kind": "heap", "mode": "seeded", "n": 1500})
        sh.append({"kind": "heap", "mode": "perturb165", "n": 600, "env": {"MALLOC_PERTURB_": "165"}})
        sh.append({"kind": "heap", "mode": "perturb90", "n": 600, "env": {"MALLOC_PERTURB_": "90"}})
    else:
        for k in kinds:
            sh.append({"kind": "sweep", "mask_n": 13 if k != "force3D" else 12, "kinds": [k], "oracles": orc, "items": [1]})
            sh.append({"kind": "sweep", "mask_n": 8, "kinds": [k], "oracles": orc, "items": [2, 3]})
        for s in range(4):
            sh.append({"kind": "random", "shard": s, "budget_s": 90, "kinds": kinds, "oracles": orc, "big": True})
        sh.append({"kind": "capture", "oracles": orc})
        sh.append({"kind": "heap", "mode": "seeded", "n": 40000})
        sh.append({"kind": "heap", "mode": "perturb165", "n": 15000, "env": {"MALLOC_PERTURB_": "165"}})
        sh.append({"kind": "heap", "mode": "perturb90", "n": 15000, "env": {"MALLOC_PERTURB_": "90"}})
        sh.append({"kind": "memcheck", "n": 24, "mem_gb": 0})
    return sh


def run_shard(desc, rec):
    if desc["kind"] in ("heap", "memcheck"):
        from ..drivers import heap
        return heap.run_shard(desc, rec)
    codec.run_shard(desc, rec)


def replay(case, rec):
    if case.get("driver") == "heap":
        from ..drivers import heap
        return heap.replay(case, rec)
    codec.replay(case, rec, ("C05",))
