"""C20 - separately created blocks share no state."""
from ..drivers import objects as drv

ID = "C20"
LEVEL = "exploration"
TECHNIQUE = ("runtime monitoring: frame condition across objects - encodings and item identities of all other live instances snapshotted around every mutation; fresh default-constructed instances checked for emptiness")
RULE = ("interleavings (10-40 steps) over a pool of 2-4 live instances per class (3D, force/torque, EMG, events, platform calibration, platform data, optical setup): construct with / without items, decode the same bytes twice, append / remove an item, edit an item field, edit a sample in place; non-trivial = every interleaving")
ASSUMPTIONS = ["the harness never passes the same list object to two constructors"]
REQUIRED = {t: "oracle:C20.fresh-instance-empty oracle:C20.others-unchanged c20:optical c20:events c20:data3D c20:platCal".split() for t in ("quick", "thorough")}


def plan(tier, seed):
    if tier == "quick":
        return [{"kind": "c20", "shard": s, "n": 1400} for s in range(4)]
    return [{"kind": "c20", "shard": s, "n": 7000} for s in range(14)]


def run_shard(desc, rec):
    drv.run_shard(desc, rec)


def replay(case, rec):
    drv.replay(case, rec)
