"""C20 - separately created blocks share no state."""
from ..drivers import objects as drv

ID = "C20"
LEVEL = "exploration"
TECHNIQUE = ("runtime monitoring: frame condition across objects - encodings and item identities of all other live instances snapshotted around every mutation; fresh default-constructed instances checked for emptiness; a heap monitor walks the object graphs of all live instances after every step and asserts that the mutable objects reachable from two separately created instances are disjoint")
RULE = ("before every step each live instance of the four labelled kinds answers every label lookup from its own first item with that label; interleavings (10-40 steps) over a pool of 2-4 live instances per class (3D, force/torque, EMG, events, platform calibration, platform data, optical setup, 2-D data, calibration): construct with / without items (bare constructors as a caller would use them), decode the same bytes twice (two streams, one rewound stream, two reads of one stored block through one Tdf object in / across / outside contexts), bind one item into a second block under another channel, edit a header array in place, append / remove an item, edit an item field, edit a sample in place; non-trivial = every interleaving")
ASSUMPTIONS = ["the harness never passes the same list object to two constructors"]
REQUIRED = {t: "oracle:C20.fresh-instance-empty oracle:C20.others-unchanged oracle:C20.heap-disjoint oracle:C20.two-decodes-are-two-objects oracle:C20.label-lookup-answers-from-own-items c20:file-read-twice c20:decode-twice-one-stream c20:item-bound-into-a-second-block c20:data2D c20:calib c20:optical c20:events c20:data3D c20:platCal".split() for t in ("quick", "thorough")}


def plan(tier, seed):
    if tier == "quick":
        return [{"kind": "c20", "shard": s, "n": 1400} for s in range(4)]
    return [{"kind": "c20", "shard": s, "n": 7000} for s in range(14)]


def run_shard(desc, rec):
    drv.run_shard(desc, rec)


def replay(case, rec):
    drv.replay(case, rec)
