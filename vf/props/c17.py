"""C17 - creating or copying never clobbers; bad paths are refused."""
from ..drivers import access

ID = "C17"
LEVEL = "exploration"
TECHNIQUE = ("runtime monitoring: sha256 of pre-existing targets around Tdf.new/copy, audit-hook log of write-capable opens, "
             "independent parse of created files, follow-up mutations on copy and original")
RULE = ("bad paths (absent, empty, garbage, short / partial / almost signature): fresh objects and objects created while the path still held a TDF file, four accessors tried twice each on the SAME object (an attempt after a refused attempt must be refused too); 5 target states (absent, existing TDF, existing non-TDF, existing empty file, directory) x {new, copy} x source "
        "files reached by 0..20-op histories on library-made and foreign tables; new files parsed by the reference parser "
        "(signature, version 1, 14 unused slots at 4096, length 4096, zero reserved words, dates inside the call window); "
        "copies compared byte for byte and mutated on one side; targets that exist under another spelling (same path, dir/../name, relative path, hard link, symbolic link); what the object returned by copy() reports through its own implicit contexts vs. a fresh object on the copy, also while the source goes on changing; opening absent / empty / garbage / near-signature files, also through an object created while the path still held a TDF; "
        "non-trivial = every case")
ASSUMPTIONS = ["targets live on tmpfs under /dev/shm"]
REQUIRED = {t: ["oracle:C17.open-non-tdf:attempt-on-one-object", "oracle:C17.existing-target-refused", "oracle:C17.new-is-canonical-empty",
                "oracle:C17.copy-identical-and-independent", "oracle:C17.open-absent", "oracle:C17.open-non-tdf",
                "c17:independence-checked", "oracle:C17.returned-object-reads-the-copy", "oracle:C17.open-non-tdf(object created earlier)",
                "c17:alias:copy:hard-link", "c17:alias:copy:symlink", "c17:alias:new:dotdot-path", "oracle:C17.directory-otherwise-untouched", "c17:big-source", "c17:new:tdf", "c17:copy:non-tdf", "c17:copy:empty", "c17:new:directory"]
            for t in ("quick", "thorough")}


def plan(tier, seed):
    if tier == "quick":
        return [{"kind": "create-copy", "shard": s, "n": 300, "n_open": 60, "big_p": 0.12} for s in range(4)]
    return [{"kind": "create-copy", "shard": s, "n": 900, "n_open": 300, "big_p": 0.15} for s in range(12)]


def run_shard(desc, rec):
    access.run_shard(desc, rec)


def replay(case, rec):
    access.replay(case, rec)
