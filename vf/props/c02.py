"""C02 - declared size == bytes written == bytes consumed (blocks and every nested item)."""
from ..drivers import codec
from ._codec_common import plan_codec

ID = "C02"
LEVEL = "exploration"
TECHNIQUE = "runtime monitoring: in-place wrappers on every _write/_build/nBytes asserting stream advance == declared size"
RULE = ("codec monitor wraps _write/_build of 9 block classes + 11 nested item classes and compares "
        "stream.tell() advance with nBytes on every call; workload = C01's random specs + a shape sweep "
        "aimed at each term of each size formula (item counts 0..4, links 0..6, every None pattern of "
        "<=6 2D cells in float32 and float64, segment counts 0..ceil(n/2)) + the BTS capture against "
        "its jump-table sizes; decoding happens from a stream with random prefix and non-zero suffix; "
        "non-trivial = block with >= 1 item")
ASSUMPTIONS = ["BTS camera records are generated with exactly 70 distortion coefficients (the on-disk width)",
               "one shard feeds +-inf samples: only the size oracles of C02 are meaningful there (they are the only ones judged)",
               "the monitor reads nBytes immediately before _write and immediately after _build"]
_classes = ["Data3D", "MarkerTrack", "EMG", "EMGTrack", "ForceTorque3D", "ForceTorqueTrack",
            "ForcePlatformsDataBlock", "ForcePlatformData", "ForcePlatformsCalibrationDataBlock",
            "ForcePlatformInfo", "Data2D", "Data2DPCK", "CalibrationDataBlock", "SeelabCameraData",
            "BTSCameraData", "OpticalSetupBlock", "OpticalChannelData", "TemporalEventsData", "Event"]
REQUIRED = {t: [f"codec:{c}._write" for c in _classes] + [f"codec:{c}._build" for c in _classes] +
            ["oracle:C02.capture-consumed==table-size", "oracle:C02.consumed==written"]
            for t in ("quick", "thorough")}


def plan(tier, seed):
    n = 300 if tier == "quick" else 6000
    return plan_codec(tier, seed, ["C02"], shapes=True,
                      extra=[{"kind": "repo-tests"}, {"kind": "c15", "n": n, "objects": True},
                             # sizes must also agree for samples outside the round-trip domain (+-inf)
                             {"kind": "random", "shard": 900, "n": 1500 if tier == "quick" else 40000, "oracles": ["C02"],
                              "kinds": ["data3D", "emg", "force3D", "platData"], "inf": True},
                             {"kind": "c16", "n": n, "objects": True}, {"kind": "c20", "n": n // 2, "objects": True}])


def run_shard(desc, rec):
    if desc["kind"] == "repo-tests":
        from ..drivers import repotests
        return repotests.run_shard(desc, rec)
    if desc.get("objects"):
        # edit sequences on live blocks (adds, removals, refused bulk assignments ...): every encode that happens
        # there is size-checked by the codec monitor
        from ..drivers import objects
        from ..monitors import codec as codec_mon
        codec_mon.install(rec)
        return objects.run_shard(desc, rec)
    codec.run_shard(desc, rec)


def replay(case, rec):
    codec.replay(case, rec, ("C02",))
