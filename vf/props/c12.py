"""C12 - reserved, padding and after-terminator bytes never influence what is read."""
from ..drivers import codec
from ._codec_common import plan_codec

ID = "C12"
LEVEL = "exploration"
TECHNIQUE = "runtime monitoring: metamorphic oracle - scramble every don't-care byte (labelled by the reference decoder) and compare decoded content and re-encoding"
RULE = ("for each generated spec the reference encoding is decoded by the reference decoder to label "
        "every byte; all reserved / pad / after-NUL bytes are overwritten (random, all-0xFF, or "
        "printable 'longer string' tails) k times; library decode of the scrambled bytes must equal the "
        "decode of the clean bytes and re-encode to identical bytes; same for file header and table "
        "entries through Tdf, and for the BTS capture blocks; non-trivial = encoding has >= 1 don't-care byte "
        "and >= 1 item")
ASSUMPTIONS = ["bytes cp1252 cannot decode (0x81,0x8D,0x8F,0x90,0x9D) are never placed before a terminator; "
               "in tails they are allowed", "first NUL of a string is never disturbed"]
REQUIRED = {t: ["oracle:C12.content-independent-of-dontcare", "oracle:C12.reencode-canonical",
                "c12:dontcare-bytes-scrambled", "oracle:C12.container-independent-of-dontcare"]
            for t in ("quick", "thorough")}


def plan(tier, seed):
    return plan_codec(tier, seed, ["C12"], quick_n=500, scr_k=5 if tier == "quick" else 25,
                      thorough_budget=60,
                      extra=[{"kind": "container-scramble", "n": 60 if tier == "quick" else 1500},
                             {"kind": "container-layout", "n": 300 if tier == "quick" else 20000},
                             {"kind": "full-width", "n": 200 if tier == "quick" else 5000}])


def run_shard(desc, rec):
    if desc["kind"] == "container-scramble":
        from ..drivers import layout
        return layout.shard_container_scramble(desc, rec)
    if desc["kind"] == "container-layout":
        from ..drivers import layout
        return layout.shard_container_layout(desc, rec)
    if desc["kind"] == "full-width":
        from ..drivers import layout
        return layout.shard_full_width(desc, rec)
    codec.run_shard(desc, rec)


def replay(case, rec):
    if case.get("driver") == "layout":
        from ..drivers import layout
        return layout.replay(case, rec)
    codec.replay(case, rec, ("C12",))
