"""C01 - encode∘decode is the identity on every stored field; re-encoding reproduces the bytes."""
from ..drivers import codec
from ._codec_common import plan_codec

ID = "C01"
LEVEL = "exploration"
TECHNIQUE = "runtime monitoring: round-trip oracle (field view + byte identity) over generated blocks on the real codec"
RULE = ("seeded random valid specs of all nine block kinds (both Data3D and both calibration formats, "
        "0..5 items, 1..120 frames (thorough: up to 20000), ten presence-mask families, cp1252 labels "
        "incl. width-1, float32 special values and random bit patterns, float32/float64 inputs) + an "
        "exhaustive sweep of all presence masks up to n frames + the 8 blocks of the BTS capture; a "
        "case is (spec hash, construction variant); non-trivial = the block holds >= 1 item/cell")
ASSUMPTIONS = ["view() reads public attributes; EMG and Data2D channel maps are read from the encoding",
               "Data2D._camMap is set privately because no public setter exists (as tests/test_data2D.py does)",
               "NaN appears only as a wholly-missing frame; +-inf never generated"]
REQUIRED = {t: ["oracle:C01.fields-roundtrip", "oracle:C01.reencode-identical"] +
            [f"cases:{k}" for k in codec.gen.KINDS] + ["capture:data3D"] for t in ("quick", "thorough")}


def plan(tier, seed):
    return plan_codec(tier, seed, ["C01"])


def run_shard(desc, rec):
    codec.run_shard(desc, rec)


def replay(case, rec):
    codec.replay(case, rec, ("C01",))
