"""`io_audit` monitor: sys.addaudithook observer of every open() on watched paths, plus /proc/self/fd."""
from __future__ import annotations

import os
import sys

_events = []
_watched = set()
_phase = ["idle"]
_installed = False


def _hook(event, args):
    if event == "open" and _watched:
        try:
            path, mode, flags = args[0], args[1], args[2]
            if isinstance(path, bytes):
                path = path.decode(errors="replace")
            if not isinstance(path, str):
                return
            rp = os.path.realpath(path) if not os.path.isabs(path) else path
            if rp in _watched or path in _watched:
                writable = bool(flags & (os.O_WRONLY | os.O_RDWR | os.O_APPEND | os.O_TRUNC | os.O_CREAT)) \
                    if isinstance(flags, int) else any(c in (mode or "") for c in "wa+x")
                _events.append((rp, mode, flags, writable, _phase[0]))
        except Exception:
            pass


def install():
    global _installed
    if not _installed:
        sys.addaudithook(_hook)
        _installed = True


def watch(path):
    _watched.add(os.path.realpath(str(path)))


def unwatch(path):
    _watched.discard(os.path.realpath(str(path)))


def phase(name):
    _phase[0] = name


def drain():
    ev = list(_events)
    _events.clear()
    return ev


def fds_on(path):
    """descriptors of this process that point at `path`"""
    rp = os.path.realpath(str(path))
    out = []
    for fd in os.listdir("/proc/self/fd"):
        try:
            if os.readlink(f"/proc/self/fd/{fd}") == rp:
                out.append(int(fd))
        except OSError:
            pass
    return out
