"""Reach audit (opt-in, ``VERIF_REACH=<dir>``): which statements of the library the workloads of a check actually
executed.  sys.monitoring LINE events, global, on a tool id of its own; every location reports once (the callback
returns DISABLE), so the cost is one call per distinct statement.  Not a verdict: the result says where the monitors
could not have seen anything ("held" never covers code the workload did not drive).  Children dump
``<dir>/<prop>_<pid>.json``; ``tools/reach.py`` merges them against the statement table of ``REPO/src``."""
from __future__ import annotations

import atexit
import json
import os
import sys

TOOL = 5
_hits: dict[str, set[int]] = {}
_prefix = None


def _cb(code, line):
    fn = code.co_filename
    if fn.startswith(_prefix):
        _hits.setdefault(fn[len(_prefix):], set()).add(line)
    return sys.monitoring.DISABLE


def install(prop_id: str, repo_src: str) -> None:
    global _prefix
    out = os.environ.get("VERIF_REACH")
    if not out or _prefix is not None:
        return
    _prefix = repo_src.rstrip("/") + "/"
    mon = sys.monitoring
    mon.use_tool_id(TOOL, "vf-reach")
    mon.register_callback(TOOL, mon.events.LINE, _cb)
    mon.set_events(TOOL, mon.events.LINE)
    os.makedirs(out, exist_ok=True)

    def dump():
        with open(os.path.join(out, f"{prop_id}_{os.getpid()}.json"), "w") as f:
            json.dump({k: sorted(v) for k, v in _hits.items()}, f)
    atexit.register(dump)
