"""Source-free failpoints: sys.monitoring LINE events restricted to the code objects of the block
and item encoders (_write and nBytes).  When armed with (scope, k) the k-th statement executed
inside *each* top-level invocation of the scope's function raises InjectedEncodeError -
deterministically on every invocation, so an implementation that encodes in a dry run first meets
the same fault in its dry run (a transient fault is not what C07 is about).
"""
from __future__ import annotations

import sys

from .. import env

env.bootstrap()


class InjectedEncodeError(ValueError):
    pass


TOOL = 4
_state = {"mode": "off", "k": 0, "count": 0, "top": None, "first": {}, "fired": 0, "max": 0,
          "active": False}
_codes = {}  # code -> (class name, op)
_installed = False


def _orig(f):
    while hasattr(f, "__wrapped__"):
        f = f.__wrapped__
    return f


def _targets():
    from ..monitors.codec import _classes
    out = {}
    for cls in _classes():
        if cls.__name__ == "TdfEntry":
            continue
        d = cls.__dict__
        w = d.get("_write")
        if w is not None and callable(w):
            out[_orig(w).__code__] = (cls.__name__, "_write")
        nb = d.get("nBytes")
        if isinstance(nb, property):
            out[_orig(nb.fget).__code__] = (cls.__name__, "nBytes")
    return out


def _cb(code, line):
    st = _state
    if st["mode"] == "off":
        return
    top = st["top"]
    if code is top:
        fl = st["first"].get(code)
        if fl is None:
            st["first"][code] = fl = line
        if line == fl:
            st["count"] = 0
            st["active"] = True
    if not st["active"]:
        return
    st["count"] += 1
    if st["mode"] == "count":
        if st["count"] > st["max"]:
            st["max"] = st["count"]
    elif st["count"] == st["k"]:
        st["fired"] += 1
        raise InjectedEncodeError(f"injected encoder fault at statement {st['k']} "
                                  f"({_codes.get(code, ('?', '?'))[0]}.{_codes.get(code, ('?', '?'))[1]}:{line})")


def install():
    global _installed
    if _installed:
        return
    mon = sys.monitoring
    mon.use_tool_id(TOOL, "vf-failpoints")
    mon.register_callback(TOOL, mon.events.LINE, _cb)
    _codes.update(_targets())
    for c in _codes:
        mon.set_local_events(TOOL, c, mon.events.LINE)
    _installed = True


def top_code(block, op):
    d = type(block).__dict__
    if op == "_write":
        return _orig(d["_write"]).__code__
    return _orig(d["nBytes"].fget).__code__


def count_statements(block, op):
    """number of LINE events in one top-level invocation of block.<op> (dry run into memory)"""
    from io import BytesIO
    st = _state
    st.update(mode="count", top=top_code(block, op), count=0, max=0, active=False)
    try:
        if op == "_write":
            block._write(BytesIO())
        else:
            block.nBytes
    finally:
        st["mode"] = "off"
        st["active"] = False
    return st["max"]


class armed:
    def __init__(self, block, op, k):
        self.block, self.op, self.k = block, op, k

    def __enter__(self):
        _state.update(mode="fail", top=top_code(self.block, self.op), k=self.k, count=0, fired=0,
                      active=False)
        return self

    def __exit__(self, *a):
        self.fired = _state["fired"]
        _state["mode"] = "off"
        _state["active"] = False
        return False
