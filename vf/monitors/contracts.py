"""`contracts` monitor: icontract class invariants attached to the real classes from the harness.

Conditions are named functions that *record and return True* (so they never change control flow and
can stay on in any workload).  They read private attributes and therefore are auxiliary: if a
refactor renames those, the condition reports "unavailable" and the driver-side oracles, which use
only public observations, remain the deciders.

  C15  channel map and item list have equal length, channels unique   (EMG, platform calibration, platform data)
  C16  every track of a block is of the right kind and has the block's frame count   (Data3D, ForceTorque3D, EMG)
"""
from __future__ import annotations

from .. import env

env.bootstrap()

_rec = None
_installed = False


def _report(prop, key, msg):
    if _rec is not None:
        _rec.violation(prop, key, msg, {"monitor": "contracts"})


def _pair(self):
    for m, i in (("_emgMap", "_signals"), ("_platformMap", "_platforms"), ("_plat_map", "_platforms")):
        if hasattr(self, m) and hasattr(self, i):
            return getattr(self, m), getattr(self, i)
    return None


def map_aligned_and_unique(self):
    if _rec is None:
        return True
    p = _pair(self)
    if p is None:
        _rec.count("contract:C15.map-invariant:unavailable")
        return True
    cmap, items = p
    _rec.count("contract:C15.map-invariant")
    try:
        chans = [int(c) for c in cmap]
    except Exception:
        return True
    if len(chans) != len(items):
        _report("C15", f"{type(self).__name__}:invariant:channel-list-and-items-disagree",
                f"{len(chans)} channels for {len(items)} items")
    elif len(set(chans)) != len(chans):
        _report("C15", f"{type(self).__name__}:invariant:duplicate-channel", f"{chans}")
    return True


def tracks_right_kind_and_length(self):
    if _rec is None:
        return True
    from basictdf import tdfData3D, tdfForce3D, tdfEMG
    spec = {tdfData3D.Data3D: ("_tracks", tdfData3D.MarkerTrack, "nFrames", "nFrames"),
            tdfForce3D.ForceTorque3D: ("_tracks", tdfForce3D.ForceTorqueTrack, "nFrames", "nFrames"),
            tdfEMG.EMG: ("_signals", tdfEMG.EMGTrack, "nSamples", "nSamples")}.get(type(self))
    if spec is None or not hasattr(self, spec[0]) or not hasattr(self, spec[2]):
        _rec.count("contract:C16.track-invariant:unavailable")
        return True
    attr, cls, nattr, tattr = spec
    _rec.count("contract:C16.track-invariant")
    n = getattr(self, nattr)
    for t in getattr(self, attr):
        if not isinstance(t, cls):
            _report("C16", f"{type(self).__name__}:invariant:wrong-kind-inside", f"holds a {type(t).__name__}")
            break
        try:
            if getattr(t, tattr) != n:
                _report("C16", f"{type(self).__name__}:invariant:wrong-length-inside",
                        f"block of {n} frames holds a track of {getattr(t, tattr)}")
                break
        except Exception:
            pass
    return True


def install(rec):
    """returns True when the invariants are attached"""
    global _rec, _installed
    _rec = rec
    if _installed:
        return True
    if not env.ensure_deps():
        rec.count("contracts:unavailable")
        return False
    import icontract
    from basictdf import tdfData3D, tdfForce3D, tdfEMG, tdfForcePlatformsCalibration, tdfForcePlatformsData

    class InvariantBroken(Exception):
        pass
    try:
        for cls in (tdfEMG.EMG, tdfForcePlatformsCalibration.ForcePlatformsCalibrationDataBlock,
                    tdfForcePlatformsData.ForcePlatformsDataBlock):
            icontract.invariant(map_aligned_and_unique, error=InvariantBroken)(cls)
        for cls in (tdfData3D.Data3D, tdfForce3D.ForceTorque3D, tdfEMG.EMG):
            icontract.invariant(tracks_right_kind_and_length, error=InvariantBroken)(cls)
    except Exception as e:
        rec.count("contracts:unavailable")
        rec.note(f"icontract invariants could not be attached: {type(e).__name__}: {e}")
        return False
    _installed = True
    return True
