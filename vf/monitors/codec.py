"""`codec` monitor: wraps every _write / _build of the block and item classes *in place* and asserts

    bytes written  == nBytes read just before the call          (C02: written == declared)
    bytes consumed == nBytes of the object the decoder returned  (C02: consumed == declared)

on every nested item as well as on every block, in whatever workload is running (generated
blocks, container histories, the repository's own tests).  Events are counted per class and op.
"""
from __future__ import annotations

import functools

from .. import env

env.bootstrap()

_installed = False
_rec = None
_depth = 0
ENABLED = True


def _classes():
    from basictdf import (tdfData3D, tdfEMG, tdfForce3D, tdfForcePlatformsData,
                          tdfForcePlatformsCalibration, tdfData2D, tdfCalibrationData,
                          tdfOpticalSystem, tdfEvents, basictdf)
    return [
        tdfData3D.Data3D, tdfData3D.MarkerTrack, tdfEMG.EMG, tdfEMG.EMGTrack,
        tdfForce3D.ForceTorque3D, tdfForce3D.ForceTorqueTrack,
        tdfForcePlatformsData.ForcePlatformsDataBlock, tdfForcePlatformsData.ForcePlatformData,
        tdfForcePlatformsCalibration.ForcePlatformsCalibrationDataBlock,
        tdfForcePlatformsCalibration.ForcePlatformInfo,
        tdfData2D.Data2D, tdfData2D.Data2DPCK,
        tdfCalibrationData.CalibrationDataBlock, tdfCalibrationData.SeelabCameraData,
        tdfCalibrationData.BTSCameraData,
        tdfOpticalSystem.OpticalSetupBlock, tdfOpticalSystem.OpticalChannelData,
        tdfEvents.TemporalEventsData, tdfEvents.Event, basictdf.TdfEntry,
    ]


def set_recorder(rec):
    global _rec
    _rec = rec


def _viol(cls, op, msg):
    if _rec is not None:
        _rec.violation("C02", f"{cls.__name__}:{op}", msg, {"monitor": "codec", "class": cls.__name__})


def _wrap_write(cls, fn):
    @functools.wraps(fn)
    def w(self, file, *a, **k):
        global _depth
        if not ENABLED or _rec is None:
            return fn(self, file, *a, **k)
        try:
            nb = int(self.nBytes)
            p0 = file.tell()
        except Exception:
            _rec.count(f"codec:{cls.__name__}._write:nBytes-unavailable")
            return fn(self, file, *a, **k)
        _depth += 1
        try:
            r = fn(self, file, *a, **k)
        finally:
            _depth -= 1
        p1 = file.tell()
        _rec.count(f"codec:{cls.__name__}._write")
        if p1 - p0 != nb:
            _viol(cls, "written!=declared",
                  f"{cls.__name__}._write advanced the stream by {p1 - p0} bytes but nBytes said {nb} "
                  f"(nesting depth {_depth})")
        return r
    return w


def _wrap_build(cls, fn):
    @functools.wraps(fn)
    def w(stream, *a, **k):
        if not ENABLED or _rec is None:
            return fn(stream, *a, **k)
        p0 = stream.tell()
        obj = fn(stream, *a, **k)
        p1 = stream.tell()
        _rec.count(f"codec:{cls.__name__}._build")
        try:
            nb = int(obj.nBytes)
        except Exception as e:
            _viol(cls, "decoded-object-has-no-size",
                  f"{cls.__name__}._build returned an object whose nBytes raises {type(e).__name__}: {e}")
            return obj
        if p1 - p0 != nb:
            _viol(cls, "consumed!=declared",
                  f"{cls.__name__}._build consumed {p1 - p0} bytes but the decoded object declares nBytes={nb}")
        return obj
    return w


def install(rec=None):
    """idempotent; wraps the class attributes in place, preserving staticmethod-ness"""
    global _installed
    if rec is not None:
        set_recorder(rec)
    if _installed:
        return
    for cls in _classes():
        d = cls.__dict__
        if "_write" in d and callable(d["_write"]):
            setattr(cls, "_write", _wrap_write(cls, d["_write"]))
        if "_build" in d:
            b = d["_build"]
            if isinstance(b, staticmethod):
                setattr(cls, "_build", staticmethod(_wrap_build(cls, b.__func__)))
    _installed = True
