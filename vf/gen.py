"""Seeded workload generators: random valid specs for all nine writable block kinds."""
from __future__ import annotations

import random
import struct

from .refcodec import f32r

KINDS = ["data3D", "emg", "force3D", "platData", "platCal", "data2D", "calib", "optical", "events"]

# every code point that Windows-1252 can encode, NUL excluded
CP1252_CHARS = []
for _b in range(1, 256):
    try:
        CP1252_CHARS.append(bytes([_b]).decode("cp1252"))
    except UnicodeDecodeError:
        pass
ASCII = "abcdefghijklmnopqrstuvwxyzABCDEFGHIJKLMNOPQRSTUVWXYZ0123456789 _-.~"

F32_SPECIAL = [0.0, -0.0, 1.401298464324817e-45, -1.401298464324817e-45, 1.1754943508222875e-38,
               -1.1754943508222875e-38, 3.4028234663852886e38, -3.4028234663852886e38, 1.0, -1.0,
               1.1754942106924411e-38, 16777216.0, 0.10000000149011612]
F64_SPECIAL = [0.0, -0.0, 5e-324, -5e-324, 2.2250738585072014e-308, 1.7976931348623157e308,
               -1.7976931348623157e308, 1.0, 0.1, 1e-300, 123456789.123456789]
I32_EDGE = [0, 1, -1, 2 ** 31 - 1, -2 ** 31, 100, 1000, 65536]


def rf32(rng: random.Random) -> float:
    r = rng.random()
    if r < 0.12:
        return rng.choice(F32_SPECIAL)
    if r < 0.55:
        return f32r(rng.gauss(0, 1) * 10 ** rng.randint(-3, 4))
    while True:  # uniformly random finite bit pattern
        bits = rng.getrandbits(32)
        if (bits >> 23) & 0xFF != 0xFF:
            return struct.unpack("<f", struct.pack("<I", bits))[0]


def rf64(rng: random.Random) -> float:
    r = rng.random()
    if r < 0.12:
        return rng.choice(F64_SPECIAL)
    if r < 0.55:
        return rng.gauss(0, 1) * 10 ** rng.randint(-6, 8)
    while True:
        bits = rng.getrandbits(64)
        if (bits >> 52) & 0x7FF != 0x7FF:
            return struct.unpack("<d", struct.pack("<Q", bits))[0]


def ri32(rng, lo=-2 ** 31, hi=2 ** 31 - 1, small=1000):
    r = rng.random()
    if r < 0.1:
        v = rng.choice(I32_EDGE)
        if lo <= v <= hi:
            return v
    if r < 0.8:
        return rng.randint(max(lo, 0), min(hi, small))
    return rng.randint(lo, hi)


def rlabel(rng, width=256):
    maxlen = width - 1
    r = rng.random()
    if r < 0.08:
        n = 0
    elif r < 0.16:
        n = 1
    elif r < 0.22:
        n = maxlen
    elif r < 0.28:
        n = maxlen - 1
    else:
        n = rng.randint(1, min(12, maxlen))
    pool = CP1252_CHARS if rng.random() < 0.4 else ASCII
    s = "".join(rng.choice(pool) for _ in range(n))
    if n >= 2 and rng.random() < 0.08:
        # Windows-1252 text whose bytes happen to be well-formed UTF-8 multi-byte sequences (what mis-decoded UTF-8
        # looks like): a reader that sniffs encodings would take it for something else
        m = rng.choice(MOJIBAKE)
        if len(m) <= n:
            at = rng.randint(0, n - len(m))
            s = s[:at] + m + s[at + len(m):]
    return s


MOJIBAKE = ["Ã©", "â‚¬", "Ã¼", "Â°", "ðŸ˜€", "Ã\xa0"]
MASK_KINDS = ["all", "none", "prefix_gap", "suffix_gap", "both_ends", "alternating", "random",
              "single_present", "single_gap", "blocks"]


def rmask(rng, n, kind=None):
    kind = kind or rng.choice(MASK_KINDS)
    if kind == "all" or n == 0:
        return [True] * n
    if kind == "none":
        return [False] * n
    if kind == "prefix_gap":
        k = rng.randint(1, n)
        return [False] * k + [True] * (n - k)
    if kind == "suffix_gap":
        k = rng.randint(1, n)
        return [True] * (n - k) + [False] * k
    if kind == "both_ends":
        a = rng.randint(0, n // 2)
        b = rng.randint(0, n - a)
        return [False] * a + [True] * (n - a - b) + [False] * b
    if kind == "alternating":
        ph = rng.randint(0, 1)
        return [(i + ph) % 2 == 0 for i in range(n)]
    if kind == "single_present":
        k = rng.randrange(n)
        return [i == k for i in range(n)]
    if kind == "single_gap":
        k = rng.randrange(n)
        return [i != k for i in range(n)]
    if kind == "blocks":
        out, cur = [], rng.random() < 0.5
        while len(out) < n:
            out.extend([cur] * rng.randint(1, max(1, n // 4)))
            cur = not cur
        return out[:n]
    p = rng.choice([0.1, 0.5, 0.9])
    return [rng.random() < p for _ in range(n)]


def rframes(rng, mask, width):
    """present frames get random samples; now and then a present frame is exactly at the origin (+0 / -0)"""
    def z():
        return rng.choice([0.0, 0.0, -0.0])
    if width == 1:
        return [(z() if rng.random() < 0.04 else rf32(rng)) if m else None for m in mask]
    out = [([z() for _ in range(width)] if rng.random() < 0.04 else [rf32(rng) for _ in range(width)]) if m else None
           for m in mask]
    if PARTIAL_NAN_P:
        # a present frame (its first, presence-defining component is a number) whose *other* components are partly
        # NaN: stored and read back as it is - presence is decided by the first component alone
        for f in out:
            if f is not None and rng.random() < PARTIAL_NAN_P:
                for c in rng.sample(range(1, width), rng.randint(1, width - 1)):
                    f[c] = float("nan")
    return out


PARTIAL_NAN_P = 0.04


def rnframes(rng, big=False):
    r = rng.random()
    if r < 0.15:
        return 1
    if r < 0.75:
        return rng.randint(2, 12)
    if r < 0.97 or not big:
        return rng.randint(13, 120)
    return rng.randint(1000, 20000)


def rnitems(rng, maxn=4):
    r = rng.random()
    if r < 0.12:
        return 0
    if r < 0.4:
        return 1
    return rng.randint(2, maxn)


def rchannels(rng, n, hi=32767):
    r = rng.random()
    if r < 0.4:
        return list(range(n))
    out = set()
    while len(out) < n:
        out.add(rng.randint(0, hi) if rng.random() < 0.5 else rng.randint(0, 40))
    out = list(out)
    rng.shuffle(out)
    return out


def rvp(rng):
    return [ri32(rng) for _ in range(4)]


def gen_spec(rng: random.Random, kind: str, big: bool = False, fmt=None):
    if kind == "data3D":
        n = rnframes(rng, big)
        fm = fmt or rng.choice([1, 2])
        nt = rnitems(rng, 5)
        s = {"t": kind, "format": fm, "nFrames": n, "frequency": ri32(rng), "startTime": rf32(rng),
             "volume": [rf32(rng) for _ in range(3)], "rot": [rf32(rng) for _ in range(9)],
             "trans": [rf32(rng) for _ in range(3)], "flag": rng.choice([0, 1]),
             "tracks": _dup_labels(rng, [{"label": rlabel(rng), "frames": rframes(rng, rmask(rng, n), 3)} for _ in range(nt)])}
        if fm == 1:
            nl = rng.choice([0, 0, 1, 2, 3, 6, 31, 32, 33, 40, 100])
            hi = 2 ** 32 - 1
            s["links"] = [[rng.randint(0, max(nt, 1)) if rng.random() < 0.8 else rng.randint(0, hi),
                           rng.randint(0, max(nt, 1)) if rng.random() < 0.8 else rng.randint(0, hi)]
                          for _ in range(nl)]
        return s
    if kind == "emg":
        n = rnframes(rng, big)
        nt = rnitems(rng, 5)
        return {"t": kind, "format": 1, "frequency": ri32(rng), "startTime": rf32(rng), "nSamples": n,
                "map": rchannels(rng, nt),
                "tracks": _dup_labels(rng, [{"label": rlabel(rng), "frames": rframes(rng, rmask(rng, n), 1)} for _ in range(nt)])}
    if kind == "force3D":
        n = rnframes(rng, False) if not big else min(rnframes(rng, big), 3000)
        nt = rnitems(rng, 4)
        return {"t": kind, "format": 1, "frequency": ri32(rng), "startTime": rf32(rng), "nFrames": n,
                "volume": [rf32(rng) for _ in range(3)], "rot": [rf32(rng) for _ in range(9)],
                "trans": [rf32(rng) for _ in range(3)],
                "tracks": _dup_labels(rng, [{"label": rlabel(rng), "frames": rframes(rng, rmask(rng, n), 9)} for _ in range(nt)])}
    if kind == "platData":
        n = rnframes(rng, big)
        nt = rnitems(rng, 4)
        return {"t": kind, "format": 1, "frequency": ri32(rng), "startTime": rf32(rng), "nFrames": n,
                "map": rchannels(rng, nt, hi=65535),   # unsigned 16-bit on both sides
                "plats": [{"frames": rframes(rng, rmask(rng, n), 6)} for _ in range(nt)]}
    if kind == "platCal":
        nt = rnitems(rng, 5)
        return {"t": kind, "format": 2, "map": rchannels(rng, nt),
                "plats": [{"label": rlabel(rng), "size": [rf32(rng), rf32(rng)],
                           "position": [rf32(rng) for _ in range(12)]} for _ in range(nt)]}
    if kind == "data2D":
        nc = rng.choice([0, 1, 1, 2, 3, 4])
        nf = rng.choice([1, 1, 2, 3, 5, 9]) if not (big and rng.random() < 0.1) else rng.randint(50, 400)
        pnone = rng.choice([0.0, 0.3, 0.7, 1.0])
        cells = []
        for _ in range(nf):
            row = []
            for _ in range(nc):
                if rng.random() < pnone:
                    row.append(None)
                else:
                    k = rng.choice([1, 1, 2, 3, 7])
                    if rng.random() < 0.004:     # the 16-bit point count allows up to 65535 points in one cell
                        k = rng.choice([8191, 8192, 8193, 16384, 40000, 65535])
                    row.append([[rf32(rng), rf32(rng)] for _ in range(k)])
            cells.append(row)
        return {"t": kind, "format": 2, "nCams": nc, "nFrames": nf, "frequency": ri32(rng),
                "startTime": rf32(rng), "flags": rng.choice([0, 1]), "map": rchannels(rng, nc),
                "cells": cells}
    if kind == "calib":
        fm = fmt or rng.choice([1, 2])
        nc = rnitems(rng, 4)
        cams = []
        for _ in range(nc):
            cam = {"rot": [rf64(rng) for _ in range(9)], "trans": [rf64(rng) for _ in range(3)],
                   "focus": [rf64(rng), rf64(rng)], "center": [rf64(rng), rf64(rng)]}
            if fm == 1:
                cam["radial"] = [rf64(rng), rf64(rng)]
                cam["decentering"] = [rf64(rng), rf64(rng)]
                cam["thinprism"] = [rf64(rng), rf64(rng)]
            else:
                cam["xcoef"] = [rf64(rng) for _ in range(70)]
                cam["ycoef"] = [rf64(rng) for _ in range(70)]
            cam["vp"] = rvp(rng)
            cams.append(cam)
        return {"t": kind, "format": fm, "model": rng.choice([0, 1, 2, 3]),
                "volume": [rf32(rng) for _ in range(3)], "rot": [rf32(rng) for _ in range(9)],
                "trans": [rf32(rng) for _ in range(3)], "map": rchannels(rng, nc), "cams": cams}
    if kind == "optical":
        nc = rnitems(rng, 6)
        return {"t": kind, "format": 1,
                "channels": [{"index": ri32(rng), "lens": rlabel(rng, 32), "type": rlabel(rng, 32),
                              "name": rlabel(rng, 32), "vp": rvp(rng)} for _ in range(nc)]}
    if kind == "events":
        ne = rnitems(rng, 5)
        evs = []
        for _ in range(ne):
            ty = rng.choice([0, 1])
            nv = rng.choice([0, 1]) if ty == 0 else rng.choice([0, 1, 2, 3, 6])
            vals = [rf32(rng) for _ in range(nv)]
            if nv >= 2 and rng.random() < 0.3:   # the same instant twice, not in ascending order
                vals[rng.randrange(nv)] = vals[rng.randrange(nv)]
            evs.append({"label": rlabel(rng), "type": ty, "values": vals})
        return {"t": kind, "format": 1, "startTime": rf32(rng), "events": evs}
    raise KeyError(kind)


def _dup_labels(rng, items):
    """now and then two items carry the same label (allowed: lookup by label returns the first)"""
    if len(items) >= 2 and rng.random() < 0.15:
        i, j = rng.sample(range(len(items)), 2)
        items[j]["label"] = items[i]["label"]
    return items


def gen_variant(rng: random.Random, kind: str):
    v = {"dtype": rng.choice(["f4", "f8"]), "order": rng.choice(["C", "C", "F", "strided"]),
         "endian": rng.choice(["<", "<", "<", ">"])}
    if v["dtype"] == "f8" and rng.random() < 0.5:
        v["jitter"] = True      # float64 values with more precision than the 32-bit fields can hold
    if kind in ("data3D", "force3D"):
        v["via"] = rng.choice(["add", "assign"])
    if kind == "data3D":
        v["links"] = rng.choice(["array", "tuples"])
        v["links_attr"] = rng.random() < 0.7
        v["stray_links"] = rng.random() < 0.3
    if kind in ("calib", "optical"):
        v["vp"] = rng.choice(["object", "array22", "lists"])
    if kind == "calib":
        v["mapdt"] = rng.choice(["i2", "i2", "i4", "i8", "u2"])     # the map is stored as int16 whatever it is given as
    if kind == "platCal":
        v["pc"] = rng.choice(["arrays", "arrays", "lists"])
    if kind in ("data3D", "emg", "force3D", "platData") and rng.random() < 0.25:
        v["gap_nan"] = rng.choice(["neg", "payload", "signalling"])
    if kind == "events":
        v["evvals"] = rng.choice(["list", "f4array", "f8array"])
    return v


def small_spec(kind, nitems=1, nframes=3, mask=None, fmt=None, seed=0):
    """deterministic small spec with simple values, for structured sweeps"""
    rng = random.Random(seed * 7919 + hash((kind, nitems, nframes, str(mask), fmt)) % 100003)
    s = gen_spec(rng, kind, fmt=fmt)
    n = nframes
    m = mask if mask is not None else [True] * n

    def fr(w):
        return rframes(rng, m, w)
    if kind == "data3D":
        s["nFrames"] = n
        s["tracks"] = [{"label": f"t{i}", "frames": fr(3)} for i in range(nitems)]
    elif kind == "emg":
        s["nSamples"] = n
        s["map"] = list(range(nitems))
        s["tracks"] = [{"label": f"s{i}", "frames": fr(1)} for i in range(nitems)]
    elif kind == "force3D":
        s["nFrames"] = n
        s["tracks"] = [{"label": f"f{i}", "frames": fr(9)} for i in range(nitems)]
    elif kind == "platData":
        s["nFrames"] = n
        s["map"] = list(range(nitems))
        s["plats"] = [{"frames": fr(6)} for i in range(nitems)]
    return s


def inject_inf(rng, spec):
    """put +-inf into some samples, including the presence-defining first component.  Such blocks are NOT
    in the domain of the round-trip properties (numpy's masked_invalid makes the library treat inf in the first
    component as a missing frame), but the size agreement of C02 must hold for them too."""
    key = {"data3D": "tracks", "emg": "tracks", "force3D": "tracks", "platData": "plats"}.get(spec["t"])
    if not key:
        return spec
    inf = float("inf")
    for it in spec[key]:
        fr = it["frames"]
        for k, f in enumerate(fr):
            if f is None or rng.random() > 0.3:
                continue
            v = rng.choice([inf, -inf])
            if isinstance(f, list):
                j = 0 if rng.random() < 0.6 else rng.randrange(len(f))
                f[j] = v
            else:
                fr[k] = v
    return spec
