"""./check setup : offline bootstrap of harness deps + self-check of the reference codec on the capture."""
from __future__ import annotations

import json
import sys

from . import env, refcodec as rc
from .runner import jhash


def capture_digests():
    data = env.CAPTURE.read_bytes()
    c = rc.parse_container(data)
    out = {}
    for e in c["entries"]:
        if e["type"] == 0:
            continue
        kind = rc.CODE_TYPES[e["type"]]
        payload = rc.payload_of(data, e)
        spec, spans, aux = rc.decode_block(kind, e["format"], payload)   # exact=True: every byte consumed
        assert rc.check_spans_cover(spans, len(payload)), kind
        re = rc.encode_block(spec)
        dc = set(rc.dontcare_positions(spans))
        assert len(re) == len(payload) and all(re[i] == payload[i] for i in range(len(re)) if i not in dc), kind
        out[kind] = jhash(spec)
        if kind == "emg":   # the sample-count bias is derived from the capture, not copied from the library
            hdr = int.from_bytes(payload[12:16], "little", signed=True)
            ext = max(s + n for segs in aux["segs"] for s, n in segs)
            out["_emg_bias_derived"] = ext - hdr
    return out


def main():
    ok = env.ensure_deps()
    print("icontract available:", ok)
    env.bootstrap()
    dig = capture_digests()
    gpath = env.VERIF / "golden" / "capture_digests.json"
    if "--write-golden" in sys.argv:
        gpath.parent.mkdir(exist_ok=True)
        gpath.write_text(json.dumps(dig, indent=1) + "\n")
        print("golden digests written")
        return 0
    want = json.loads(gpath.read_text())
    if dig != want:
        print("reference-codec self-check FAILED: capture digests differ", dig, want)
        return 1
    if dig["_emg_bias_derived"] != rc.EMG_BIAS:
        print("EMG bias derived from the capture differs from refcodec.EMG_BIAS")
        return 1
    print("reference codec self-check on the BTS capture: ok (8 blocks, every byte labelled, digests match)")
    return 0
