"""Bridge between plain specs (see refcodec) and the repository's objects.

build(spec, variant) constructs a library block through its *public* constructors and adders;
view(obj) reads a library block back into a spec through *public* attributes, casting samples to
their on-disk width.  Where the library has no public accessor (EMG channel map, Data2D camera
map) the value is taken from the encoded bytes -- the observation point the properties name.
The only private attribute ever written is Data2D._camMap, which the repository's own test
(tests/test_data2D.py) sets the same way because no public setter exists.
"""
from __future__ import annotations

import struct
from io import BytesIO

import numpy as np

from . import env

env.bootstrap()

from basictdf.tdfBlock import BlockType  # noqa: E402
from basictdf import tdfData3D, tdfEMG, tdfForce3D, tdfForcePlatformsData  # noqa: E402
from basictdf import tdfForcePlatformsCalibration, tdfData2D, tdfCalibrationData  # noqa: E402
from basictdf import tdfOpticalSystem, tdfEvents, tdfTypes  # noqa: E402

KINDS = ["data3D", "emg", "force3D", "platData", "platCal", "data2D", "calib", "optical", "events"]
RLE_KINDS = ["data3D", "emg", "force3D", "platData"]

BLOCK_CLASS = {
    "data3D": tdfData3D.Data3D, "emg": tdfEMG.EMG, "force3D": tdfForce3D.ForceTorque3D,
    "platData": tdfForcePlatformsData.ForcePlatformsDataBlock,
    "platCal": tdfForcePlatformsCalibration.ForcePlatformsCalibrationDataBlock,
    "data2D": tdfData2D.Data2D, "calib": tdfCalibrationData.CalibrationDataBlock,
    "optical": tdfOpticalSystem.OpticalSetupBlock, "events": tdfEvents.TemporalEventsData,
}
BLOCK_TYPE = {
    "data3D": BlockType.data3D, "emg": BlockType.electromyographicData,
    "force3D": BlockType.forceAndTorqueData, "platData": BlockType.forcePlatformsData,
    "platCal": BlockType.forcePlatformsCalibrationData, "data2D": BlockType.data2D,
    "calib": BlockType.calibrationData, "optical": BlockType.opticalSystemConfiguration,
    "events": BlockType.temporalEventsData,
}
KIND_OF_CLASS = {v: k for k, v in BLOCK_CLASS.items()}
LINK_DT = np.dtype([("Track1", "<u4"), ("Track2", "<u4")])


def kind_of(obj) -> str:
    return KIND_OF_CLASS[type(obj)]


def _fdt(variant):
    """dtype of the float arrays handed to the library: float32 / float64, native or big-endian"""
    return np.dtype(variant.get("endian", "<") + ("f8" if variant.get("dtype") == "f8" else "f4"))


def _idt(variant, code):
    return np.dtype(variant.get("endian", "<") + code)


GAP_NANS = {"neg": 0xFFC00000, "payload": 0x7FC00001, "signalling": 0x7F800001}


def _frames_array(frames, width, dt, variant=None):
    n = len(frames)
    a = np.full((n, width) if width > 1 else (n,), np.nan, dtype=dt)
    how = (variant or {}).get("gap_nan")
    if how in GAP_NANS and n:
        # missing frames marked with a NaN other than numpy's default one (what 0/0 or a C library may leave behind):
        # still "not a number", still a missing frame
        nanv = np.array([GAP_NANS[how]], dtype="<u4").view("<f4")[0]
        if np.dtype(dt).itemsize == 8:
            nanv = np.array([0xFFF8000000000000 if how == "neg" else 0x7FF8000000000001], dtype="<u8").view("<f8")[0]
        a[...] = nanv
    for i, f in enumerate(frames):
        if f is not None:
            a[i] = f
    return a


def _jarr(a, variant):
    """jitter a float64 array (see _jit)"""
    a = np.asarray(a)
    if variant.get("jitter") and a.dtype.itemsize == 8 and a.dtype.kind == "f":
        b = a * (1.0 + 2e-9)
        ok = (b.astype(np.float32) == a.astype(np.float32)) & np.isfinite(a) & (np.abs(a) > 1e-30) & (np.abs(a) < 1e30)
        return np.where(ok, b, a).astype(a.dtype)
    return a


def _jit(x, variant):
    """a float64 value that rounds to x at float32 width but is not x (only when the variant asks for it):
    32-bit fields given with more precision than the file can hold"""
    if variant.get("jitter") and isinstance(x, float) and x == x and abs(x) > 1e-30 and abs(x) < 1e30:
        y = x * (1.0 + 2e-9)
        if struct.unpack("<f", struct.pack("<f", y))[0] == x:
            return y
    return x


def _order(a, variant):
    """same values, other memory layout: Fortran order or a strided view into a larger buffer"""
    o = variant.get("order", "C")
    a = np.asarray(a)
    if variant.get("jitter") and variant.get("dtype") == "f8" and a.dtype.kind == "f" and a.dtype.itemsize == 8 \
            and not variant.get("_f64_field"):
        a = _jarr(a, variant)
    if o == "F" and a.ndim >= 2:
        return np.asfortranarray(a)
    if o == "strided" and a.ndim >= 1 and a.size:
        big = np.zeros(tuple(2 * d for d in a.shape), dtype=a.dtype)
        view = big[tuple(slice(None, None, 2) for _ in a.shape)]
        view[...] = a
        return view
    return a


def _vp(vals, variant):
    o = np.array(vals[:2], dtype=_idt(variant, "i4"))
    s = np.array(vals[2:], dtype=_idt(variant, "i4"))
    if variant.get("vp") == "array22":
        return np.array([vals[:2], vals[2:]], dtype=_idt(variant, "i4"))
    if variant.get("vp") == "lists":       # plain python lists / tuples of ints
        return tdfTypes.CameraViewPort([int(x) for x in vals[:2]], tuple(int(x) for x in vals[2:]))
    return tdfTypes.CameraViewPort(o, s)


def build_item(kind, it, variant, spec=None):
    """one nested item (track / signal / platform / camera / channel / event)"""
    dt = _fdt(variant)
    if kind == "data3D":
        return tdfData3D.MarkerTrack(it["label"], _order(_frames_array(it["frames"], 3, dt, variant), variant))
    if kind == "emg":
        return tdfEMG.EMGTrack(it["label"], _order(_frames_array(it["frames"], 1, dt, variant), variant))
    if kind == "force3D":
        a = _frames_array(it["frames"], 9, dt, variant)
        return tdfForce3D.ForceTorqueTrack(it["label"], _order(np.ascontiguousarray(a[:, 0:3]), variant),
                                           _order(np.ascontiguousarray(a[:, 3:6]), variant),
                                           _order(np.ascontiguousarray(a[:, 6:9]), variant))
    if kind == "platData":
        a = _frames_array(it["frames"], 6, dt, variant)
        return tdfForcePlatformsData.ForcePlatformData(_order(np.ascontiguousarray(a[:, 0:2]), variant),
                                                       _order(np.ascontiguousarray(a[:, 2:5]), variant),
                                                       _order(np.ascontiguousarray(a[:, 5]), variant))
    if kind == "platCal":
        if variant.get("pc") == "lists":   # geometry handed over as plain (nested) python lists
            return tdfForcePlatformsCalibration.ForcePlatformInfo(
                it["label"], [float(x) for x in it["size"]],
                [[float(x) for x in it["position"][3 * r:3 * r + 3]] for r in range(4)])
        return tdfForcePlatformsCalibration.ForcePlatformInfo(
            it["label"], _order(np.array(it["size"], dtype=dt), variant),
            _order(np.array(it["position"], dtype=dt).reshape(4, 3), variant))
    if kind == "calib":
        variant = dict(variant, _f64_field=True)   # camera parameters are 64-bit on disk: nothing to round
        if "radial" in it:
            return tdfCalibrationData.SeelabCameraData(
                _order(np.array(it["rot"], dtype=np.dtype(variant.get("endian", "<") + "f8")).reshape(3, 3), variant), _order(np.array(it["trans"], dtype=np.dtype(variant.get("endian", "<") + "f8")), variant),
                np.array(it["focus"], dtype=np.dtype(variant.get("endian", "<") + "f8")), np.array(it["center"], dtype=np.dtype(variant.get("endian", "<") + "f8")),
                np.array(it["radial"], dtype=np.dtype(variant.get("endian", "<") + "f8")), np.array(it["decentering"], dtype=np.dtype(variant.get("endian", "<") + "f8")),
                np.array(it["thinprism"], dtype=np.dtype(variant.get("endian", "<") + "f8")), _vp(it["vp"], variant))
        return tdfCalibrationData.BTSCameraData(
            _order(np.array(it["rot"], dtype=np.dtype(variant.get("endian", "<") + "f8")).reshape(3, 3), variant), _order(np.array(it["trans"], dtype=np.dtype(variant.get("endian", "<") + "f8")), variant),
            np.array(it["focus"], dtype=np.dtype(variant.get("endian", "<") + "f8")), np.array(it["center"], dtype=np.dtype(variant.get("endian", "<") + "f8")),
            np.array(it["xcoef"], dtype=np.dtype(variant.get("endian", "<") + "f8")), np.array(it["ycoef"], dtype=np.dtype(variant.get("endian", "<") + "f8")),
            _vp(it["vp"], variant))
    if kind == "optical":
        return tdfOpticalSystem.OpticalChannelData(it["index"], it["lens"], it["type"], it["name"],
                                                   _vp(it["vp"], variant))
    if kind == "events":
        vals = it["values"]
        if variant.get("evvals") == "f4array":
            vals = np.array(vals, dtype="<f4")
        elif variant.get("evvals") == "f8array":
            vals = np.array(vals, dtype=np.dtype(variant.get("endian", "<") + "f8"))
        return tdfEvents.Event(it["label"], vals, tdfEvents.EventsDataType(it["type"]))
    raise KeyError(kind)


def build(spec, variant=None):
    """spec -> library block, through public constructors / adders"""
    variant = variant or {}
    t = spec["t"]
    dt = _fdt(variant)
    if t == "data3D":
        b = tdfData3D.Data3D(spec["frequency"], spec["nFrames"], _order(np.array(spec["volume"], dtype=dt), variant),
                             _order(np.array(spec["rot"], dtype=dt).reshape(3, 3), variant),
                             _order(np.array(spec["trans"], dtype=dt), variant),
                             _jit(spec["startTime"], variant), tdfData3D.Flags(spec["flag"]),
                             tdfData3D.Data3dBlockFormat(spec["format"]))
        if spec["format"] == 1 and (spec["links"] or variant.get("links_attr", True)):
            if variant.get("links") == "tuples":
                b.links = [tuple(x) for x in spec["links"]]
            else:
                b.links = np.array([tuple(x) for x in spec["links"]], dtype=LINK_DT)
        if spec["format"] != 1 and variant.get("stray_links"):
            # a links attribute on a block whose format stores no link table (e.g. a block read from a by-track
            # file and switched to the compact format): not part of the encoding, and not of its size either
            b.links = np.array([(0, 1), (1, 2), (0, 2)][: 1 + len(spec["tracks"]) % 3], dtype=LINK_DT)
        items = [build_item(t, it, variant) for it in spec["tracks"]]
        if variant.get("via") == "assign":
            b.tracks = items
        else:
            for it in items:
                b.add_track(it)
        return b
    if t == "emg":
        b = tdfEMG.EMG(spec["frequency"], spec["nSamples"], _jit(spec["startTime"], variant),
                       tdfEMG.EMGBlockFormat(spec["format"]))
        for c, it in zip(spec["map"], spec["tracks"]):
            b.addSignal(build_item(t, it, variant), channel=c)
        return b
    if t == "force3D":
        b = tdfForce3D.ForceTorque3D(spec["frequency"], spec["nFrames"], _order(np.array(spec["volume"], dtype=dt), variant),
                                     _order(np.array(spec["rot"], dtype=dt).reshape(3, 3), variant),
                                     _order(np.array(spec["trans"], dtype=dt), variant), _jit(spec["startTime"], variant),
                                     tdfForce3D.ForceTorque3DBlockFormat(spec["format"]))
        items = [build_item(t, it, variant) for it in spec["tracks"]]
        if variant.get("via") == "assign":
            b.tracks = items
        else:
            for it in items:
                b.add_track(it)
        return b
    if t == "platData":
        b = tdfForcePlatformsData.ForcePlatformsDataBlock(
            _jit(spec["startTime"], variant), spec["frequency"], spec["nFrames"],
            tdfForcePlatformsData.ForcePlatformBlockFormat(spec["format"]))
        for c, it in zip(spec["map"], spec["plats"]):
            b.add_platform(build_item(t, it, variant), channel=c)
        return b
    if t == "platCal":
        b = tdfForcePlatformsCalibration.ForcePlatformsCalibrationDataBlock(
            format=tdfForcePlatformsCalibration.ForcePlatformCalibrationBlockFormat(spec["format"]))
        for c, it in zip(spec["map"], spec["plats"]):
            b.add_platform(build_item(t, it, variant), channel=c)
        return b
    if t == "data2D":
        b = tdfData2D.Data2D(spec["nCams"], spec["nFrames"], spec["frequency"], _jit(spec["startTime"], variant),
                             tdfData2D.Data2DFlags(spec["flags"]), tdfData2D.Data2DBlockFormat(spec["format"]))
        cells = np.empty((spec["nFrames"], spec["nCams"]), dtype=object)
        for fr in range(spec["nFrames"]):
            for cam in range(spec["nCams"]):
                c = spec["cells"][fr][cam]
                cells[fr, cam] = None if c is None else _order(np.array(c, dtype=dt).reshape(len(c), 2), variant)
        b.data = cells
        b._camMap = list(spec["map"])  # no public setter exists (tests/test_data2D.py does the same)
        return b
    if t == "calib":
        return tdfCalibrationData.CalibrationDataBlock(
            tdfCalibrationData.DistorsionModel(spec["model"]), _order(np.array(spec["volume"], dtype=dt), variant),
            _order(np.array(spec["rot"], dtype=dt).reshape(3, 3), variant), _order(np.array(spec["trans"], dtype=dt), variant),
            np.array(spec["map"], dtype=_idt(variant, variant.get("mapdt", "i2"))), [build_item(t, it, variant) for it in spec["cams"]],
            tdfCalibrationData.CalibrationDataBlockFormat(spec["format"]))
    if t == "optical":
        return tdfOpticalSystem.OpticalSetupBlock(
            tdfOpticalSystem.OpticalSetupBlockFormat(spec["format"]),
            [build_item(t, it, variant) for it in spec["channels"]])
    if t == "events":
        b = tdfEvents.TemporalEventsData(tdfEvents.TemporalEventsDataFormat(spec["format"]),
                                         _jit(spec["startTime"], variant))
        for it in spec["events"]:
            b.events.append(build_item(t, it, variant))
        return b
    raise KeyError(t)


# ------------------------------------------------------------------------------------------------
def enc(obj) -> bytes:
    buf = BytesIO()
    obj._write(buf)
    return buf.getvalue()


def dec(kind, fmt, data: bytes, prefix: bytes = b"", suffix: bytes = b""):
    """decode through the library from a stream in which the encoding is embedded;
    returns (object, bytes consumed)"""
    s = BytesIO(prefix + data + suffix)
    s.seek(len(prefix))
    obj = BLOCK_CLASS[kind]._build(s, fmt)
    return obj, s.tell() - len(prefix)


def fmt_of(obj) -> int:
    return int(obj.format.value)


# ------------------------------------------------------------------------------------------------
# views
# ------------------------------------------------------------------------------------------------
def _f32list(a):
    return np.asarray(a, dtype=np.float32).astype(np.float64).ravel().tolist()


def _f64list(a):
    return np.asarray(a, dtype=np.float64).ravel().tolist()


def _f32(x):
    return float(np.float32(x))


def _frames(a, width):
    """(n,width) array -> list of rows, wholly-NaN rows -> None (samples at float32 width)"""
    a = np.asarray(a, dtype=np.float32)
    if width == 1:
        a = a.reshape(-1)
        nan = np.isnan(a)
        out = a.astype(np.float64).tolist()
        if nan.any():
            for i in np.nonzero(nan)[0].tolist():
                out[i] = None
        return out
    a = a.reshape(-1, width)
    allnan = np.isnan(a).all(axis=1)
    out = a.astype(np.float64).tolist()
    if allnan.any():
        for i in np.nonzero(allnan)[0].tolist():
            out[i] = None
    return out


def _vpv(vp):
    return [int(x) for x in np.asarray(vp.origin).ravel().tolist()] + \
           [int(x) for x in np.asarray(vp.size).ravel().tolist()]


def view_item(kind, it):
    if kind == "data3D":
        return {"label": it.label, "frames": _frames(it.data, 3)}
    if kind == "emg":
        return {"label": it.label, "frames": _frames(it.data, 1)}
    if kind == "force3D":
        a = np.concatenate([np.asarray(it.application_point, dtype=np.float32).reshape(-1, 3),
                            np.asarray(it.force, dtype=np.float32).reshape(-1, 3),
                            np.asarray(it.torque, dtype=np.float32).reshape(-1, 3)], axis=1)
        return {"label": it.label, "frames": _frames(a, 9)}
    if kind == "platData":
        a = np.concatenate([np.asarray(it.application_point, dtype=np.float32).reshape(-1, 2),
                            np.asarray(it.force, dtype=np.float32).reshape(-1, 3),
                            np.asarray(it.torque, dtype=np.float32).reshape(-1, 1)], axis=1)
        return {"frames": _frames(a, 6)}
    if kind == "platCal":
        return {"label": it.label, "size": _f32list(it.size), "position": _f32list(it.position)}
    if kind == "calib":
        d = {"rot": _f64list(it.rotation_matrix), "trans": _f64list(it.translation_vector),
             "focus": _f64list(it.focus), "center": _f64list(it.optical_center)}
        if isinstance(it, tdfCalibrationData.SeelabCameraData):
            d["radial"] = _f64list(it.radial_distortion)
            d["decentering"] = _f64list(it.decentering)
            d["thinprism"] = _f64list(it.thin_prism)
        else:
            d["xcoef"] = _f64list(it.x_distortion_coefficients)
            d["ycoef"] = _f64list(it.y_distortion_coefficients)
        d["vp"] = _vpv(it.view_port)
        return d
    if kind == "optical":
        return {"index": int(it.logical_camera_index), "lens": it.lens_name, "type": it.camera_type,
                "name": it.camera_name, "vp": _vpv(it.camera_viewport)}
    if kind == "events":
        return {"label": it.label, "type": int(it.type.value), "values": _f32list(it.values)}
    raise KeyError(kind)


def view(obj, encoded: bytes | None = None):
    """library block -> spec (public attributes; EMG / Data2D channel maps from the encoding)"""
    t = kind_of(obj)
    if t == "data3D":
        s = {"t": t, "format": fmt_of(obj), "nFrames": int(obj.nFrames), "frequency": int(obj.frequency),
             "startTime": _f32(obj.startTime), "volume": _f32list(obj.volume),
             "rot": _f32list(obj.rotationMatrix), "trans": _f32list(obj.translationVector),
             "flag": int(obj.flag.value), "tracks": [view_item(t, tr) for tr in obj.tracks]}
        if s["format"] == 1:
            links = getattr(obj, "links", [])
            s["links"] = [[int(a), int(b)] for a, b in (links.tolist() if isinstance(links, np.ndarray) else links)]
        return s
    if t == "emg":
        if encoded is None:
            encoded = enc(obj)
        n = struct.unpack("<i", encoded[:4])[0]
        cmap = list(struct.unpack("<%dh" % n, encoded[16:16 + 2 * n]))
        return {"t": t, "format": fmt_of(obj), "frequency": int(obj.frequency),
                "startTime": _f32(obj.startTime), "nSamples": int(obj.nSamples), "map": cmap,
                "tracks": [view_item(t, tr) for tr in obj]}
    if t == "force3D":
        return {"t": t, "format": fmt_of(obj), "frequency": int(obj.frequency),
                "startTime": _f32(obj.startTime), "nFrames": int(obj.nFrames),
                "volume": _f32list(obj.volume), "rot": _f32list(obj.rotationMatrix),
                "trans": _f32list(obj.translationVector),
                "tracks": [view_item(t, tr) for tr in obj.tracks]}
    if t == "platData":
        pairs = list(obj)
        return {"t": t, "format": fmt_of(obj), "frequency": int(obj.frequency),
                "startTime": _f32(obj.start_time), "nFrames": int(obj.n_frames),
                "map": [int(c) for c, _ in pairs], "plats": [view_item(t, p) for _, p in pairs]}
    if t == "platCal":
        pairs = list(obj.platforms)
        return {"t": t, "format": fmt_of(obj), "map": [int(c) for c, _ in pairs],
                "plats": [view_item(t, p) for _, p in pairs]}
    if t == "data2D":
        if encoded is None:
            encoded = enc(obj)
        n = struct.unpack("<i", encoded[:4])[0]
        cmap = list(struct.unpack("<%dH" % n, encoded[20:20 + 2 * n]))
        nF, nC = int(obj.nFrames), int(obj.nCams)
        data = obj.data
        cells = []
        for fr in range(nF):
            row = []
            for cam in range(nC):
                c = data[fr, cam]
                row.append(None if c is None else
                           np.asarray(c, dtype=np.float32).astype(np.float64).reshape(-1, 2).tolist())
            cells.append(row)
        return {"t": t, "format": fmt_of(obj), "nCams": nC, "nFrames": nF, "frequency": int(obj.frequency),
                "startTime": _f32(obj.startTime), "flags": int(obj.flags.value), "map": cmap, "cells": cells}
    if t == "calib":
        return {"t": t, "format": int(obj.format), "model": int(obj.distorsion_model),
                "volume": _f32list(obj.calibration_volume_size),
                "rot": _f32list(obj.calibration_volume_rotation_matrix),
                "trans": _f32list(obj.calibration_volume_translation_vector),
                "map": [int(x) for x in np.asarray(obj.cameras_calibration_map).tolist()],
                "cams": [view_item(t, c) for c in obj.cam_data]}
    if t == "optical":
        return {"t": t, "format": fmt_of(obj), "channels": [view_item(t, c) for c in obj.channels]}
    if t == "events":
        return {"t": t, "format": fmt_of(obj), "startTime": _f32(obj.start_time),
                "events": [view_item(t, e) for e in obj.events]}
    raise KeyError(t)


ITEMS_KEY = {"data3D": "tracks", "emg": "tracks", "force3D": "tracks", "platData": "plats",
             "platCal": "plats", "calib": "cams", "optical": "channels", "events": "events"}


def nitems(spec) -> int:
    if spec["t"] == "data2D":
        return sum(1 for row in spec["cells"] for c in row if c is not None)
    return len(spec[ITEMS_KEY[spec["t"]]])


def tracks_frames(spec):
    """list of per-track frame lists for run-length coded kinds"""
    return [it["frames"] for it in spec[ITEMS_KEY[spec["t"]]]]
