"""Shard runner, recorder, verdict and evidence writer shared by every property check.

A property module (vf/props/cXX.py) exposes
    ID, LEVEL, RULE, ASSUMPTIONS, TECHNIQUE
    plan(tier, seed)      -> list of JSON-able shard descriptors
    run_shard(desc, rec)  -> fills the Recorder (executed in a child process)
    REQUIRED              -> {tier: [counter names that must be > 0]}  (else INCONCLUSIVE)
    replay(case, rec)     -> re-executes one recorded case
Verdicts are three-valued: exit 0 held / exit 1 VIOLATION / exit 2 INCONCLUSIVE.
"""
from __future__ import annotations

import hashlib
import importlib
import json
import os
import subprocess
import sys
import time
import traceback
from concurrent.futures import ThreadPoolExecutor
from pathlib import Path

from . import env

MAX_VIOL_PER_KEY = 3
MAX_SAMPLES = 6


def jhash(obj) -> str:
    return hashlib.sha1(json.dumps(obj, sort_keys=True, default=str).encode()).hexdigest()[:14]


class Recorder:
    """Collects what one shard observed. Serialised to JSON at the end of the child process."""

    def __init__(self, prop_id: str, tier: str, seed: int):
        self.prop_id = prop_id
        self.tier = tier
        self.seed = seed
        self.evaluations = 0
        self.hashes: set[str] = set()
        self.nontrivial: set[str] = set()
        self.violations: list[dict] = []
        self._viol_per_key: dict[str, int] = {}
        self.viol_counts: dict[str, int] = {}
        self.counters: dict[str, int] = {}
        self.samples: list = []
        self.inconclusive: list[str] = []
        self.exhaustive: dict[str, bool] = {}
        self.notes: list[str] = []

    # -- cases ---------------------------------------------------------------------------
    def case(self, key_obj, nontrivial: bool = True, sample=None) -> str:
        h = key_obj if isinstance(key_obj, str) and len(key_obj) == 14 else jhash(key_obj)
        self.evaluations += 1
        self.hashes.add(h)
        if nontrivial:
            self.nontrivial.add(h)
        if sample is not None and len(self.samples) < MAX_SAMPLES:
            self.samples.append(sample)
        return h

    def count(self, name: str, n: int = 1) -> None:
        self.counters[name] = self.counters.get(name, 0) + n

    def set_max(self, name: str, v: int) -> None:
        self.counters[name] = max(self.counters.get(name, 0), v)

    def violation(self, prop: str, key: str, msg: str, case, exc: BaseException | None = None) -> None:
        """prop: property the oracle belongs to; key: mechanism-level classification.
        exc: the exception that led to this verdict, if any - one raised by the harness' own code
        turns the verdict into 'inconclusive'."""
        if exc is not None and env.harness_fault(exc):
            self.inconc(f"harness exception while judging {prop}:{key}: {type(exc).__name__}: {exc}")
            return
        full = f"{prop}:{key}"
        self.viol_counts[full] = self.viol_counts.get(full, 0) + 1
        n = self._viol_per_key.get(full, 0)
        if n < MAX_VIOL_PER_KEY:
            self._viol_per_key[full] = n + 1
            self.violations.append({"property": prop, "key": key, "msg": msg[:2000], "case": case})

    def note(self, s: str) -> None:
        if len(self.notes) < 50:
            self.notes.append(s)

    def inconc(self, reason: str) -> None:
        if reason not in self.inconclusive:
            self.inconclusive.append(reason)

    def dump(self) -> dict:
        return {
            "evaluations": self.evaluations,
            "hashes": sorted(self.hashes),
            "nontrivial": sorted(self.nontrivial),
            "violations": self.violations,
            "viol_counts": self.viol_counts,
            "counters": self.counters,
            "samples": self.samples,
            "inconclusive": self.inconclusive,
            "exhaustive": self.exhaustive,
            "notes": self.notes,
        }


def load_prop(prop_id: str):
    return importlib.import_module(f"vf.props.{prop_id.lower()}")


# ------------------------------------------------------------------------------------------------
# child side
# ------------------------------------------------------------------------------------------------
def child_main(prop_id: str, desc_path: str, out_path: str) -> int:
    desc = json.loads(Path(desc_path).read_text())
    rec = Recorder(prop_id, desc.get("tier", "quick"), desc.get("seed", 0))
    try:
        import resource
        lim = int(desc.get("mem_gb", 6)) << 30
        if lim:
            resource.setrlimit(resource.RLIMIT_AS, (lim, lim))  # a runaway decode raises MemoryError, no OOM kill
    except Exception:
        pass
    try:
        if os.environ.get("VERIF_REACH"):   # before the library is imported: module-level statements count too
            from .monitors import reach
            reach.install(prop_id, str(env.REPO / "src"))
        env.bootstrap()
        mod = load_prop(prop_id)
        mod.run_shard(desc, rec)
    except BaseException as e:  # a crash of the harness is inconclusive, never a verdict
        rec.inconc(f"shard crashed: {type(e).__name__}: {e}\n{traceback.format_exc()[-1500:]}")
    Path(out_path).write_text(json.dumps(rec.dump(), default=str))
    return 0


# ------------------------------------------------------------------------------------------------
# parent side
# ------------------------------------------------------------------------------------------------
def _run_one(prop_id: str, idx: int, desc: dict, workdir: Path, timeout: float) -> dict:
    dpath = workdir / f"desc_{idx}.json"
    opath = workdir / f"out_{idx}.json"
    dpath.write_text(json.dumps(desc))
    cmd = [sys.executable, "-m", "vf.cli", "--shard", prop_id, str(dpath), str(opath)]
    cmd = desc.get("wrap", []) + cmd
    child_env = dict(os.environ)
    child_env["VF_SCRATCH_BASE"] = str(workdir)
    child_env.update(desc.get("env", {}))
    t0 = time.time()
    try:
        p = subprocess.run(cmd, timeout=timeout, cwd=str(env.VERIF), env=child_env,
                           stdout=subprocess.PIPE, stderr=subprocess.PIPE)
        rc, err = p.returncode, p.stderr.decode(errors="replace")[-2000:]
    except subprocess.TimeoutExpired:
        return {"_inconclusive": f"shard {idx} ({desc.get('kind')}) hit the {timeout:.0f}s watchdog"}
    if not opath.exists():
        return {"_inconclusive": f"shard {idx} ({desc.get('kind')}) died rc={rc}: {err}"}
    out = json.loads(opath.read_text())
    out["_wall"] = time.time() - t0
    out["_stderr"] = err if rc != 0 else ""
    return out


def load_findings() -> list[dict]:
    p = env.VERIF / "known_findings.json"
    if not p.exists():
        return []
    return json.loads(p.read_text()).get("findings", [])


def run_check(prop_id: str, tier: str, seed: int) -> int:
    t0 = time.time()
    mod = load_prop(prop_id)
    descs = mod.plan(tier, seed)
    for d in descs:
        d.setdefault("tier", tier)
        d.setdefault("seed", seed)
    workdir = env.scratch_dir() / f"run_{prop_id}_{os.getpid()}"
    workdir.mkdir(parents=True, exist_ok=True)
    default_to = 900 if tier == "quick" else 5400
    ncpu = min(16, os.cpu_count() or 4)
    workers = max(1, min(ncpu, len(descs)))
    with ThreadPoolExecutor(max_workers=workers) as ex:
        futs = [ex.submit(_run_one, prop_id, i, d, workdir, d.get("timeout", default_to))
                for i, d in enumerate(descs)]
        results = [f.result() for f in futs]

    evaluations = 0
    hashes: set[str] = set()
    nontrivial: set[str] = set()
    counters: dict[str, int] = {}
    samples: list = []
    violations: list[dict] = []
    viol_counts: dict[str, int] = {}
    inconclusive: list[str] = []
    exhaustive: dict[str, bool] = {}
    notes: list[str] = []
    for r in results:
        if "_inconclusive" in r:
            inconclusive.append(r["_inconclusive"])
            continue
        evaluations += r["evaluations"]
        hashes.update(r["hashes"])
        nontrivial.update(r["nontrivial"])
        for k, v in r["counters"].items():
            if k.startswith("max:"):
                counters[k] = max(counters.get(k, 0), v)
            else:
                counters[k] = counters.get(k, 0) + v
        for s in r["samples"]:
            if len(samples) < MAX_SAMPLES:
                samples.append(s)
        violations.extend(r["violations"])
        for k, v in r["viol_counts"].items():
            viol_counts[k] = viol_counts.get(k, 0) + v
        inconclusive.extend(r["inconclusive"])
        for k, v in r["exhaustive"].items():
            exhaustive[k] = exhaustive.get(k, True) and v
        notes.extend(r["notes"])

    required = getattr(mod, "REQUIRED", {}).get(tier, [])
    for name in required:
        if counters.get(name, 0) <= 0:
            inconclusive.append(f"deciding monitor '{name}' observed 0 events")
    if evaluations == 0:
        inconclusive.append("no case was evaluated")

    # classify violations --------------------------------------------------------------------
    findings = load_findings()
    open_keys = {(f["property"], f["key"]): f for f in findings if f.get("status") == "open"}
    mine = [v for v in violations if v["property"] == prop_id]
    foreign = [v for v in violations if v["property"] != prop_id]
    known_hit: dict[str, dict] = {}
    fresh: list[dict] = []
    for v in mine:
        f = open_keys.get((prop_id, v["key"]))
        if f is not None:
            known_hit[v["key"]] = f
        else:
            fresh.append(v)

    replay_dir = Path(os.environ.get("VERIF_REPLAY_DIR") or (env.OUT / "replay")) / prop_id
    lines = []
    seen_keys: dict[str, int] = {}
    for v in fresh:
        n = seen_keys.get(v["key"], 0)
        seen_keys[v["key"]] = n + 1
        if n >= 2:
            continue
        replay_dir.mkdir(parents=True, exist_ok=True)
        doc = {"property": prop_id, "key": v["key"], "msg": v["msg"], "case": v["case"],
               "seed": seed, "tier": tier}
        path = replay_dir / f"{jhash(doc)}.json"
        path.write_text(json.dumps(doc, indent=1, default=str))
        lines.append(f"VIOLATION property={prop_id} replay={path}")
        print(f"  key={v['key']} :: {v['msg'][:600]}")
    for key, f in sorted(known_hit.items()):
        print(f"KNOWN-FINDING: property={prop_id} {f['what']} [key={key}, "
              f"{viol_counts.get(prop_id + ':' + key, 0)} occurrences this run]")
    for ln in lines:
        print(ln)

    wall = time.time() - t0
    n_fresh = sum(c for k, c in viol_counts.items()
                  if k.startswith(prop_id + ":") and (prop_id, k.split(":", 1)[1]) not in open_keys)
    coverage = {
        "evaluations": evaluations,
        "distinct_nontrivial": len(nontrivial),
        "distinct_cases": len(hashes),
        "rule": mod.RULE,
        "samples": samples if samples else ["<none recorded>"],
        "monitor_observations": dict(sorted(counters.items())),
        "shards": len(descs),
        "shard_wall_s": [[d.get("kind"), round(r.get("_wall", -1), 1)] for d, r in zip(descs, results)],
        "inconclusive": inconclusive,
        "known_findings_hit": sorted(known_hit),
        "violation_keys": {k: c for k, c in sorted(viol_counts.items()) if k.startswith(prop_id + ":")},
        "other_property_oracles_fired": {k: c for k, c in sorted(viol_counts.items())
                                         if not k.startswith(prop_id + ":")},
        "verdict": "violated" if fresh else ("inconclusive" if inconclusive else "held_on_observed"),
    }
    if exhaustive:
        coverage["exhaustive_subspaces"] = exhaustive
        coverage["exhaustive"] = False  # the run as a whole also samples; see exhaustive_subspaces
    if notes:
        coverage["notes"] = notes[:30]
    evidence = {
        "property_id": prop_id,
        "tier": tier,
        "seed": seed,
        "level": mod.LEVEL,
        "coverage": coverage,
        "assumptions": list(getattr(mod, "ASSUMPTIONS", [])),
        "wall_s": round(wall, 2),
        "violations": n_fresh,
    }
    evdir = Path(os.environ.get("VERIF_EVIDENCE_DIR") or (env.VERIF / "evidence"))  # redirected only by tools/eval_mutant.py
    evdir.mkdir(parents=True, exist_ok=True)
    (evdir / f"{prop_id}.json").write_text(json.dumps(evidence, indent=1, default=str) + "\n")

    obs = ", ".join(f"{k}={v}" for k, v in list(sorted(counters.items()))[:12])
    print(f"[{prop_id}] tier={tier} seed={seed} evaluations={evaluations} "
          f"distinct_nontrivial={len(nontrivial)} shards={len(descs)} wall={wall:.1f}s")
    print(f"[{prop_id}] observed: {obs}")
    if foreign:
        print(f"[{prop_id}] note: oracles of other properties fired in the shared workload: "
              f"{sorted({v['property'] + ':' + v['key'] for v in foreign})}")
    if fresh:
        return 1
    if inconclusive:
        for r in inconclusive[:5]:
            print(f"INCONCLUSIVE property={prop_id} reason={r[:1500]}")
        return 2
    print(f"[{prop_id}] held on everything observed")
    return 0


def run_replay(path: str) -> int:
    doc = json.loads(Path(path).read_text())
    prop_id = doc["property"]
    env.bootstrap()
    mod = load_prop(prop_id)
    rec = Recorder(prop_id, doc.get("tier", "quick"), doc.get("seed", 0))
    mod.replay(doc["case"], rec)
    mine = [v for v in rec.violations if v["property"] == prop_id]
    for v in mine:
        print(f"  key={v['key']} :: {v['msg']}")
    if mine:
        print(f"VIOLATION property={prop_id} replay={path}")
        return 1
    print(f"[{prop_id}] replay of {path}: no violation reproduced")
    return 0
